"""C19 — archives: theorems (Properties/C19.v) + correspondence of the archive model with nextest
(archive_to_file / extract_archive / config parsing / PathMapper through the public API, the CLI
end to end on the puppet workspace) + crash/fault injection on archive creation + hostile archives,
with an independent Python oracle on what the implementation did."""
import hashlib, json, os, random, shutil, signal, stat, subprocess, sys, time
import vlib
from vlib import coq_str, coq_list

PROP = "C19"
IMPORTS = ["Base.Str", "Model.Archive", "Proofs.Archive", "Proofs.ArchiveCompose"]
WORK = os.path.join(vlib.CACHE, "c19-work")
PKG_A = "crate_a 0.1.0 (path+file:///home/fakeuser/tests-workspace/crate-a)"
PKG_B = "crate_b 0.1.0 (path+file:///home/fakeuser/tests-workspace/crate-b)"
FIXTURE_WS = "/home/fakeuser/tests-workspace"
BIN_META = "target/nextest/binaries-metadata.json"
CARGO_META = "target/nextest/cargo-metadata.json"

PRELUDE = """
Definition enc_content (c : content) : N * list N :=
  match c with CFile b => (0, b) | CDir => (1, []) | CSpecial => (2, []) end.
Definition enc_archive (r : option (list entry)) : N * list (list (list N) * (N * list N)) :=
  match r with
  | None => (0, [])
  | Some es => (1, map (fun e : entry => (fst e, enc_content (snd e))) es)
  end.
Definition enc_comp (c : comp) : N * list N :=
  match c with CRoot => (0, []) | CCur => (1, []) | CParent => (2, []) | CNormal n => (3, n) end.
Definition b2n (b : bool) : N := if b then 1 else 0.
Definition enc_path_checks (raw : bytes) : N * (list (N * list N) * (N * N)) :=
  match utf8_decode raw with
  | None => (0, ([], (0, 0)))
  | Some s => (1, (map enc_comp (components s), (b2n (path_ok_target s), b2n (path_ok s))))
  end.
Definition enc_include (s : str) : N * list (list N) := (b2n (valid_include s), include_rel s).
Definition enc_node (n : node) : N * list N :=
  match n with NFile b => (0, b) | NDir => (1, []) | NLink _ => (2, []) end.
Definition enc_x (x : xresult) : N * (N * list (list (list N) * (N * list N))) :=
  let f := fun d : fsys => map (fun e : rpath * node => (fst e, enc_node (snd e))) d in
  match x with
  | XOk d => (0, (0, f d))
  | XRejected c d => (1, (c, f d))
  | XIoError d => (2, (0, f d))
  end.
(* the archiver's own entries: the UTF-8 path bytes of each, and what the repaired machine makes of
   them in an empty destination *)
Definition enc_rt (b : build) (thru : bool) (dest : rpath)
  : N * (list (list N) * (N * (N * list (list (list N) * (N * list N))))) :=
  match archive b with
  | None => (0, ([], (0, (0, []))))
  | Some es => (1, (map (fun e : entry => utf8_path (fst e)) es,
                    enc_x (extract_to false thru false dest [] (map tentry_of es))))
  end.
Definition enc_w (s : wstate * files) (dest : rpath) : N * N :=
  (b2n (committed (fst s)), match snd s dest with None => 0 | Some [] => 1 | Some (x :: _) => x end).
"""


# ----------------------------------------------------------------------------- small helpers

def sha(b):
    return hashlib.sha256(b).hexdigest()[:16]


def token(b):
    """what stands for a file's content in the model: the bytes themselves when short, else 8 bytes
    of their SHA-256 (the model treats contents as opaque)"""
    return list(b) if len(b) <= 8 else list(hashlib.sha256(b).digest()[:8])


def cq_bytes(b):
    return "[" + "; ".join(str(x) for x in b) + "]"


def cq_path(comps):
    return coq_list([coq_str(c) for c in comps])


def cq_opt(x, f):
    return "None" if x is None else f"(Some {f(x)})"


def cq_depth(d):
    return "Infinite" if d == "infinite" else f"(Finite {d})"


def cq_tree(t):
    k = t[0]
    if k == "F":
        return f"(File {cq_bytes(t[1])})"
    if k == "L":
        if t[1] == "file":
            return f"(Symlink (LFile {cq_bytes(t[2])}))"
        return "(Symlink LDir)" if t[1] == "dir" else "(Symlink LBroken)"
    if k == "D":
        return "(Dir " + coq_list([f"({coq_str(n)}, {cq_tree(c)})" for n, c in t[1]]) + ")"
    return "Other"


def scan(path):
    """the model's view of what is at `path` (None = nothing there); directory entries in
    os.scandir order (the same getdents order read_dir sees)"""
    try:
        st = os.lstat(path)
    except OSError:
        return None
    if stat.S_ISLNK(st.st_mode):
        try:
            tst = os.stat(path)
        except OSError:
            return ("L", "broken")
        if stat.S_ISDIR(tst.st_mode):
            return ("L", "dir")
        if stat.S_ISREG(tst.st_mode):
            return ("L", "file", token(open(path, "rb").read()))
        return ("L", "broken")     # a link to a special file is not generated
    if stat.S_ISREG(st.st_mode):
        return ("F", token(open(path, "rb").read()))
    if stat.S_ISDIR(st.st_mode):
        with os.scandir(path) as it:
            names = [e.name for e in it]
        return ("D", [(n, scan(os.path.join(path, n))) for n in names])
    return ("O",)


def norm_rel(p):
    """join_rel_path: drop empty and `.` components"""
    return [c for c in p.split("/") if c not in ("", ".")]


def fs_snapshot(root, skip=()):
    """everything below root (not following links): type, mode, size, mtime, inode, content digest /
    link target; `skip` = absolute paths whose subtree is left out"""
    out = {}
    for dirpath, dirs, files in os.walk(root, followlinks=False):
        dirs[:] = [d for d in dirs if os.path.join(dirpath, d) not in skip]
        for n in dirs + files:
            p = os.path.join(dirpath, n)
            if p in skip:
                continue
            st = os.lstat(p)
            kind = stat.S_IFMT(st.st_mode)
            extra = None
            if stat.S_ISLNK(st.st_mode):
                extra = os.readlink(p)
            elif stat.S_ISREG(st.st_mode):
                extra = sha(open(p, "rb").read())
            out[os.path.relpath(p, root)] = (kind, stat.S_IMODE(st.st_mode), st.st_size if not stat.S_ISDIR(st.st_mode) else 0,
                                             st.st_mtime_ns if not stat.S_ISDIR(st.st_mode) else 0, st.st_ino, st.st_nlink if not stat.S_ISDIR(st.st_mode) else 0, extra)
    return out


def tree_listing(root):
    """{relative path: ('f', bytes) | ('d',) | ('l', target) | ('o',)} below root"""
    out = {}
    if not os.path.lexists(root):
        return out
    for dirpath, dirs, files in os.walk(root, followlinks=False):
        for n in dirs + files:
            p = os.path.join(dirpath, n)
            st = os.lstat(p)
            rel = os.path.relpath(p, root)
            if stat.S_ISLNK(st.st_mode):
                out[rel] = ("l", os.readlink(p))
            elif stat.S_ISDIR(st.st_mode):
                out[rel] = ("d",)
            elif stat.S_ISREG(st.st_mode):
                out[rel] = ("f", open(p, "rb").read())
            else:
                out[rel] = ("o",)
    return out


def fresh_dir(name):
    d = os.path.join(WORK, name)
    shutil.rmtree(d, ignore_errors=True)
    os.makedirs(d)
    return d


def rm(path):
    if os.path.isdir(path) and not os.path.islink(path):
        # make everything removable again (hostile archives may leave odd modes)
        for dp, dn, fn in os.walk(path):
            try:
                os.chmod(dp, 0o700)
            except OSError:
                pass
        shutil.rmtree(path, ignore_errors=True)
    elif os.path.lexists(path):
        os.remove(path)


def harness(binary, cases, timeout=600):
    return vlib.run_impl(binary, "archive", cases, timeout=timeout, shards=1)


# ----------------------------------------------------------------------------- tar / zstd writers

def zstd_store(data):
    """a Zstandard frame made of raw (stored) blocks only: no library needed"""
    out = bytearray(b"\x28\xb5\x2f\xfd")
    out += bytes([0x00, 0x50])       # no content size, no checksum, window 1 MiB
    if not data:
        out += (1).to_bytes(3, "little")
        return bytes(out)
    i, n = 0, len(data)
    while i < n:
        chunk = data[i:i + 65536]
        i += len(chunk)
        out += ((1 if i >= n else 0) | (len(chunk) << 3)).to_bytes(3, "little")
        out += chunk
    return bytes(out)


def tar_header(name, typ=b"0", size=0, link=b"", mode=0o644, cksum_delta=0, major=None):
    h = bytearray(512)
    h[0:min(len(name), 100)] = name[:100]
    h[100:108] = b"%07o\0" % mode
    h[108:116] = b"%07o\0" % 0
    h[116:124] = b"%07o\0" % 0
    h[124:136] = b"%011o\0" % size if size < 8 ** 11 else (b"\x80" + size.to_bytes(11, "big"))
    h[136:148] = b"%011o\0" % 1700000000
    h[148:156] = b"        "
    h[156:157] = typ
    h[157:157 + min(len(link), 100)] = link[:100]
    h[257:263] = b"ustar\0"
    h[263:265] = b"00"
    if major is not None:
        h[329:337] = b"%07o\0" % major
        h[337:345] = b"%07o\0" % 3
    c = sum(h) + cksum_delta
    h[148:156] = b"%06o\0 " % c
    return bytes(h)


def tar_entry(name, data=b"", declared_size=None, **kw):
    size = len(data) if declared_size is None else declared_size
    return tar_header(name, size=size, **kw) + data + b"\0" * ((-len(data)) % 512)


def gnu_longname(name):
    data = name + b"\0"
    return tar_entry(b"././@LongLink", data, typ=b"L")


def pax_path(name):
    rec = b" path=" + name + b"\n"
    n = len(rec) + 1
    while len(str(n)) + len(rec) != n:
        n = len(str(n)) + len(rec)
    return tar_entry(b"PaxHeaders/x", str(n).encode() + rec, typ=b"x")


TAR_END = b"\0" * 1024


# ----------------------------------------------------------------------------- synthetic builds

NAMES = ["a", "b", "c", "d1", "é", "x y", "lib.so", "deps", "out", "z-9", "ß∂", "日本.rs", "\U0001d11e-clef"]


def gen_tree_on_disk(r, root, depth, budget, siblings_root):
    """create a random tree below `root` (a directory that exists); returns nothing. Contains
    regular files, empty directories, fifos, links to files / directories / nothing."""
    names = r.sample(NAMES, r.randint(0, min(5, len(NAMES))))
    for n in names:
        if budget[0] <= 0:
            return
        budget[0] -= 1
        p = os.path.join(root, n)
        k = r.choices(["file", "dir", "lfile", "ldir", "lbroken", "fifo"],
                      [10, 7 if depth > 0 else 0, 2, 2, budget[1], 1])[0]
        if k == "file" and r.random() < 0.12:
            # a file with a hole (a disk image, a preallocated database): the archiver stores it as a GNU
            # sparse entry where the filesystem reports holes; it must come back byte for byte like any other
            with open(p, "wb") as f:
                f.write(bytes(r.randrange(256) for _ in range(r.choice([1, 4096, 5000]))))
                f.seek(r.choice([1 << 16, (1 << 18) + 17]), os.SEEK_CUR)
                f.write(bytes(r.randrange(256) for _ in range(r.choice([0, 1, 4096]))))
                if r.random() < 0.3:
                    f.truncate(f.tell() + (1 << 16))      # ends in a hole
        elif k == "file":
            open(p, "wb").write(bytes(r.randrange(256) for _ in range(r.choice([0, 1, 3, 6, 40]))))
        elif k == "dir":
            os.mkdir(p)
            gen_tree_on_disk(r, p, depth - 1, budget, siblings_root)
        elif k == "lfile":
            tgt = os.path.join(siblings_root, "linked-file")
            os.symlink(tgt if r.random() < 0.5 else os.path.relpath(tgt, root), p)
        elif k == "ldir":
            os.symlink(siblings_root, p)
        elif k == "lbroken":
            os.symlink("does-not-exist", p)
        else:
            os.mkfifo(p)


def gen_build(r, case_dir, broken_links=False):
    """a target directory on disk + a BinaryListSummary + an archive.include configuration.
    Returns the case description (JSON-able; the directory itself is what the implementation reads)."""
    tgt = os.path.join(case_dir, "tgt")
    os.makedirs(os.path.join(tgt, "debug", "deps"))
    open(os.path.join(tgt, "linked-file"), "wb").write(b"LINKED")
    bins = {}
    for i in range(r.randint(1, 3)):
        rel = f"debug/deps/t{i}-{r.randrange(16 ** 4):04x}"
        open(os.path.join(tgt, rel), "wb").write(bytes(r.randrange(256) for _ in range(r.choice([4, 20, 300]))))
        bid = f"crate_a::t{i}"
        bins[bid] = {"binary-id": bid, "binary-name": f"t{i}", "package-id": PKG_A, "kind": "test",
                     "binary-path": os.path.join(tgt, rel), "build-platform": "target"}
    non_test = {}
    if r.random() < 0.6:
        rel = "debug/helper"
        open(os.path.join(tgt, rel), "wb").write(b"HELPER" * r.randint(1, 5))
        non_test[PKG_A] = [{"name": "helper", "kind": "bin-exe", "path": rel}]
    out_dirs = {}
    budget = [r.randint(4, 22), 1 if broken_links else 0]
    for pkg, nm in ((PKG_A, "a-1f"), (PKG_B, "b-2e")):
        if r.random() < 0.5:
            base = f"debug/build/{nm}"
            os.makedirs(os.path.join(tgt, base, "out"))
            open(os.path.join(tgt, base, "output"), "wb").write(b"cargo:rustc-env=X=1\n")
            gen_tree_on_disk(r, os.path.join(tgt, base, "out"), 2, budget, tgt)
            out_dirs[pkg] = base + "/out"
    linked = []
    for nm in ("debug/build/l1/out/lib", "debug/native", "debug/gone"):
        if r.random() < 0.4:
            if nm != "debug/gone":
                os.makedirs(os.path.join(tgt, nm))
                gen_tree_on_disk(r, os.path.join(tgt, nm), 2, budget, tgt)
            linked.append(nm)
    # extra trees and includes
    tops = []
    for nm in ("xa", "xb", "xc"):
        if r.random() < 0.8:
            os.mkdir(os.path.join(tgt, nm))
            gen_tree_on_disk(r, os.path.join(tgt, nm), r.randint(1, 5), budget, tgt)
            tops.append(nm)
    if r.random() < 0.3:
        open(os.path.join(tgt, "xfile"), "wb").write(b"top-level file")
        tops.append("xfile")
    if r.random() < 0.25:
        os.symlink("xa" if r.random() < 0.5 else "nowhere", os.path.join(tgt, "xlink"))
        tops.append("xlink")
    if r.random() < 0.25:
        os.makedirs(os.path.join(tgt, "nextest"), exist_ok=True)
        open(os.path.join(tgt, "nextest", "cargo-metadata.json"), "wb").write(b"ON-DISK-IMPOSTOR")
        open(os.path.join(tgt, "nextest", "other.json"), "wb").write(b"{}")
        tops.append("nextest")
    includes = []
    for _ in range(r.choice([0, 1, 2, 3, 4])):
        base = r.choice(tops + ["missing", "debug/deps"]) if tops else "missing"
        path = base
        # sometimes a sub-path, sometimes a decorated spelling
        full = os.path.join(tgt, base)
        if os.path.isdir(full) and not os.path.islink(full) and r.random() < 0.4:
            subs = sorted(os.listdir(full))
            if subs:
                path = base + "/" + r.choice(subs)
        path = r.choice([path, path, "./" + path, path.replace("/", "/./", 1), path + "/"])
        inc = {"path": path, "depth": r.choice([None, 0, 1, 2, 3, 4, "infinite"]),
               "on_missing": r.choice([None, "ignore", "warn", "error"] if base == "missing"
                                      else [None, "ignore", "warn", "error", "error"])}
        includes.append(inc)
    # overlapping includes, the shallower one first: a directory reached with little depth left by one entry
    # is still archived down to the depth another entry configures for it
    dirs = [t for t in tops if os.path.isdir(os.path.join(tgt, t)) and not os.path.islink(os.path.join(tgt, t))]
    if dirs and r.random() < 0.35:
        base = r.choice(dirs)
        subs = sorted(x for x in os.listdir(os.path.join(tgt, base))
                      if os.path.isdir(os.path.join(tgt, base, x)) and not os.path.islink(os.path.join(tgt, base, x)))
        includes.append({"path": base, "depth": r.choice([0, 1, 2]), "on_missing": None})
        includes.append({"path": base + "/" + r.choice(subs) if subs else base, "depth": r.choice([3, 4, "infinite"]),
                         "on_missing": None})
    summary = {
        "rust-build-meta": {
            "target-directory": tgt, "base-output-directories": ["debug"],
            "non-test-binaries": non_test, "build-script-out-dirs": out_dirs, "linked-paths": linked,
            "target-platforms": [], "target-platform": None,
            "platforms": {"host": {"platform": {"triple": "x86_64-unknown-linux-gnu",
                                                "target-features": "unknown"},
                                   "libdir": {"status": "unavailable", "reason": "c19"}},
                          "targets": []}},
        "rust-binaries": bins}
    return dict(target_dir=tgt, summary=summary, includes=includes)


def include_toml(includes):
    rows = []
    for i in includes:
        row = f'{{ path = {json.dumps(i["path"], ensure_ascii=False)}, relative-to = "target"'
        if i["depth"] is not None:
            row += f', depth = {json.dumps(i["depth"])}'
        if i["on_missing"] is not None:
            row += f', on-missing = "{i["on_missing"]}"'
        rows.append(row + " }")
    return "[profile.default.archive]\ninclude = [\n  " + ",\n  ".join(rows) + "\n]\n"


def coq_build(case, meta_bin, meta_cargo, stdlibs=(), roundtrip=None):
    """the model's `build` for a generated case, read back from the directory; with roundtrip =
    (thru, dest): the model's own entries, their UTF-8 path bytes and their extraction into dest"""
    tgt = case["target_dir"]
    sm = case["summary"]["rust-build-meta"]

    def src(rel_comps):
        return cq_opt(scan(os.path.join(tgt, *rel_comps)) if rel_comps else scan(tgt), cq_tree)

    def pair(rel):
        comps = rel.split("/")
        return f"({cq_path(comps)}, {src(comps)})"

    bins = [pair(os.path.relpath(b["binary-path"], tgt))
            for _, b in sorted(case["summary"]["rust-binaries"].items())]
    nontest = [pair(b["path"]) for _, bs in sorted(sm["non-test-binaries"].items())
               for b in sorted(bs, key=lambda x: (x["name"], x["kind"], x["path"]))]
    outs = []
    for _, od in sorted(sm["build-script-out-dirs"].items()):
        comps = od.split("/")
        parent = comps[:-1]
        outf = f"(Some {pair('/'.join(parent + ['output']))})" if parent else "None"
        outs.append(f"({pair(od)}, {outf})")
    linked = [pair(l) for l in sorted(sm["linked-paths"])]
    incs = []
    for i in case["includes"]:
        comps = norm_rel(i["path"])
        d = 16 if i["depth"] is None else i["depth"]
        om = {"ignore": "OnIgnore", "warn": "OnWarn", "error": "OnError", None: "OnWarn"}[i["on_missing"]]
        incs.append(f"{{| inc_path := include_rel {coq_str(i['path'])}; inc_depth := {cq_depth(d)}; "
                    f"inc_missing := {om}; inc_src := {src(comps)} |}}")
    rec = (f"{{| b_meta_binaries := {cq_bytes(token(meta_bin))}; "
           f"b_meta_cargo := {cq_bytes(token(meta_cargo))}; b_test_bins := {coq_list(bins)}; "
           f"b_non_test_bins := {coq_list(nontest)}; b_out_dirs := {coq_list(outs)}; "
           f"b_linked := {coq_list(linked)}; b_includes := {coq_list(incs)}; b_stdlibs := "
           + coq_list([f"({cq_path(rel.split('/'))}, {cq_opt(scan(path), cq_tree)})" for rel, path in stdlibs])
           + " |}")
    if roundtrip is not None:
        thru, dest = roundtrip
        return f"enc_rt {rec} {vlib.coq_bool(thru)} {cq_path([c for c in dest.split('/') if c])}"
    return f"enc_archive (archive {rec})"


def oracle_expected_files(case, stdlibs=()):
    """Independent statement of the property: which regular-file contents must come out of the
    archive, computed with os.walk-style reasoning on the directory (not with the model).
    Returns (expect_error, {archive path: bytes | 'dir'})."""
    tgt = case["target_dir"]
    sm = case["summary"]["rust-build-meta"]
    # the two in-memory metadata files are written first and win over files of the same name
    out = {BIN_META: None, CARGO_META: None}
    err = [False]

    def take(rel):
        p = os.path.join(tgt, rel)
        if os.path.islink(p) and not os.path.exists(p):
            if "target/" + rel not in out:
                err[0] = True
            return
        key = "target/" + rel
        if key in out:
            return
        if os.path.isdir(p):
            out[key] = "dir"
        elif os.path.isfile(p):
            out[key] = open(p, "rb").read()
        elif os.path.lexists(p):
            out[key] = b""        # a special file handed to tar directly (not generated)
        else:
            err[0] = True

    def below(rel, depth):
        """files with at most `depth` enclosing directories counted from rel itself"""
        root = os.path.join(tgt, rel)
        if os.path.islink(root) or not os.path.isdir(root):
            if stat.S_ISREG(os.lstat(root).st_mode) or os.path.islink(root):
                take(rel)
            return
        base_parts = len(root.rstrip("/").split("/"))
        for dp, dn, fn in os.walk(root, followlinks=False):
            level = len(dp.rstrip("/").split("/")) - base_parts + 1   # directories enclosing dp's files
            if depth != "infinite" and level > depth:
                dn[:] = []
                continue
            for n in dn + fn:
                p = os.path.join(dp, n)
                st = os.lstat(p)
                if stat.S_ISREG(st.st_mode) or stat.S_ISLNK(st.st_mode):
                    take(os.path.relpath(p, tgt))

    for i in case["includes"]:
        p = os.path.join(tgt, *norm_rel(i["path"]))
        if not os.path.lexists(p) and i["on_missing"] == "error":
            return True, {}
    for _, b in sorted(case["summary"]["rust-binaries"].items()):
        take(os.path.relpath(b["binary-path"], tgt))
    for _, bs in sorted(sm["non-test-binaries"].items()):
        for b in bs:
            take(b["path"])
    for _, od in sorted(sm["build-script-out-dirs"].items()):
        below(od, 1)
        take(os.path.dirname(od) + "/output")
    for l in sorted(sm["linked-paths"]):
        if os.path.exists(os.path.join(tgt, l)):
            below(l, 1)
    for i in case["includes"]:
        rel = "/".join(norm_rel(i["path"]))
        p = os.path.join(tgt, rel)
        if not os.path.exists(p):       # missing, or a dangling link named directly
            continue
        d = 16 if i["depth"] is None else i["depth"]
        if os.path.isdir(p) and not os.path.islink(p) and d == 0:
            continue
        if stat.S_ISFIFO(os.lstat(p).st_mode):
            continue
        below(rel, d)
    for rel, path in stdlibs:
        out.setdefault("target/" + rel, open(path, "rb").read())
    return err[0], out


def tar_entries_to_map(entries):
    """list_tar output -> ({path: (kind, token)}, duplicates)"""
    out, dups = {}, []
    for e in entries:
        p = e["path"].rstrip("/")
        t = e["type"]
        if t in ("0", "\0", "7", "S"):
            v = (0, token(bytes.fromhex(e["data"])))
        elif t == "5":
            v = (1, [])
        else:
            v = (2, [])
        if p in out:
            dups.append(p)
        out[p] = v
    return out, dups


def model_entries_to_map(val):
    ok, es = val
    if not ok:
        return None
    return {"/".join(vlib.decode_str(c) for c in comps): (k, list(data)) for comps, (k, data) in es}


def section_archive(chk, r, binary, n_cases, distinct, forced=(), flav=None):
    """corr:archive + oracle:roundtrip on synthetic builds through archive_to_file/extract_archive"""
    cargo_meta = open(os.path.join(vlib.REPO, "fixtures", "tests-workspace-metadata.json"), "rb").read()
    cases, hcases = [], []
    for ci in range(n_cases):
        d = fresh_dir(f"arch-{ci}")
        seed, broken, incs = forced[ci] if ci < len(forced) else (r.randrange(2 ** 32), ci % 5 == 4, None)
        case = gen_build(random.Random(seed), d, broken_links=broken)
        if incs is not None:
            case["includes"] = incs
        case["gen_seed"] = seed
        case["broken_links"] = broken
        case["dir"] = d
        os.mkdir(os.path.join(d, "dest"))
        cases.append(case)
        out = os.path.join(d, "out.tar.zst")
        hcases += [dict(op="archive", summary=case["summary"], config=include_toml(case["includes"]),
                        out=out, scratch=d, zstd_level=1),
                   dict(op="list_tar", archive=out),
                   dict(op="extract", archive=out, dest=os.path.join(d, "dest"))]
    res = harness(binary, hcases)
    exprs = []
    for ci, case in enumerate(cases):
        lt = res[3 * ci + 1]
        meta_bin = b""
        if "entries" in lt and lt["entries"] and lt["entries"][0]["path"] == BIN_META:
            meta_bin = bytes.fromhex(lt["entries"][0]["data"])
        case["meta_bin"] = meta_bin
        exprs.append(coq_build(case, meta_bin, cargo_meta))
    thru = not (flav or {}).get("f23", True)
    model = vlib.coq_eval("c19a", IMPORTS, exprs, PRELUDE)
    model_rt = vlib.coq_eval("c19r", IMPORTS,
                             [coq_build(case, case["meta_bin"], cargo_meta,
                                        roundtrip=(thru, os.path.realpath(os.path.join(case["dir"], "dest"))))
                              for case in cases], PRELUDE)
    for ci, case in enumerate(cases):
        ar, lt, ex = res[3 * ci: 3 * ci + 3]
        mm = model_entries_to_map(model[ci])
        chk.count("archive_cases")
        chk.count(f"archive_includes={len(case['includes'])}")
        for i in case["includes"]:
            chk.count(f"include_depth={i['depth']}")
            chk.count(f"include_on_missing={i['on_missing']}")
        desc = dict(includes=case["includes"], gen_seed=case["gen_seed"], broken_links=case["broken_links"],
                    summary_meta=case["summary"]["rust-build-meta"],
                    tree=tree_desc(case["target_dir"]))
        exp_err, exp = oracle_expected_files(case)
        problem = None
        if "config_error" in ar or "error" in ar:
            problem = ("machinery", f"case not evaluated: {str(ar)[:300]}")
        elif not ar["ok"]:
            chk.count("archive_failed_" + ar["err"])
            if mm is not None:
                problem = ("corr", f"archive creation failed ({ar['err']}) but the model produces an archive")
            if not exp_err and problem:
                problem = ("oracle", problem[1] + "; nothing in the build explains a failure")
            if os.path.lexists(os.path.join(case["dir"], "out.tar.zst")):
                problem = ("oracle", "archive creation returned an error yet the destination file exists")
        else:
            im, dups = tar_entries_to_map(lt.get("entries", []))
            paths = [e["path"] for e in lt.get("entries", [])]
            if dups:
                problem = ("oracle", f"paths written twice into the archive: {dups[:3]}")
            elif paths[:2] != [BIN_META, CARGO_META]:
                problem = ("oracle", f"metadata entries are not first: {paths[:3]}")
            elif bytes.fromhex(lt["entries"][1]["data"]) != cargo_meta:
                problem = ("oracle", "cargo-metadata.json in the archive is not the in-memory metadata")
            elif mm is None:
                problem = ("corr", "archive created but the model says archive creation fails")
            elif im != mm:
                only_i = sorted(set(im) - set(mm))[:4]
                only_m = sorted(set(mm) - set(im))[:4]
                diff = [p for p in im if p in mm and im[p] != mm[p]][:4]
                problem = ("corr", f"archive contents differ: only in archive {only_i}, only in model {only_m}, "
                                   f"different {diff}")
            # extraction: byte-for-byte, and nothing deeper
            if problem is None or problem[0] == "corr":
                got = tree_listing(os.path.join(case["dir"], "dest", "target"))
                why = None
                if not ex.get("ok"):
                    why = f"extraction of a freshly made archive failed: {str(ex)[:200]}"
                elif exp_err:
                    why = "archive created although a dangling link had to be archived"
                else:
                    for p, want in exp.items():
                        rel = p[len("target/"):]
                        g = got.get(rel)
                        if want is None:
                            continue
                        if want == "dir":
                            if g != ("d",):
                                why = f"{p}: expected a directory after extraction, found {g}"
                        elif g is None or g[0] != "f" or g[1] != want:
                            why = f"{p}: not reproduced byte for byte (found {None if g is None else g[0]})"
                        if why:
                            break
                    if not why:
                        allowed = set(x[len("target/"):] for x in exp) | {"nextest/binaries-metadata.json",
                                                                          "nextest/cargo-metadata.json"}
                        for rel, g in got.items():
                            if g[0] == "d" and (rel in allowed or any(a.startswith(rel + "/") for a in allowed)):
                                continue
                            if rel not in allowed:
                                why = f"target/{rel} was archived but lies outside every configured path/depth"
                                break
                    if not why and ex.get("target_dir_remap") != os.path.realpath(os.path.join(case["dir"], "dest", "target")):
                        why = f"target dir remap is {ex.get('target_dir_remap')}"
                if why:
                    problem = ("oracle", why)
            # the model end to end: its entries' UTF-8 path bytes are the bytes in the tar headers, and
            # its extraction machine run on its own entries yields the tree nextest extracted
            if problem is None and mm is not None and ex.get("ok"):
                rt_ok, (rt_paths, (xs, (xcode, xnodes))) = model_rt[ci]
                real_paths = [bytes.fromhex(e["path_hex"]).rstrip(b"/") for e in lt["entries"]]
                if not rt_ok or [bytes(x) for x in rt_paths] != real_paths:
                    k = next((i for i, (a, b) in enumerate(zip([bytes(x) for x in rt_paths], real_paths)) if a != b), None)
                    problem = ("corr", f"path bytes in the tar headers differ from the model's UTF-8 encoding "
                                       f"(first difference at entry {k})")
                elif xs != 0:
                    problem = ("corr", f"nextest extracted its own archive, the model's extraction of the model's "
                                       f"entries ends with status {xs} code {xcode}")
                else:
                    dest = os.path.realpath(os.path.join(case["dir"], "dest"))
                    mfs = {}
                    for comps, (k, data) in reversed(xnodes):
                        mfs["/" + "/".join(vlib.decode_str(c) for c in comps)] = (k, list(data))
                    real = {}
                    for rel, v in tree_listing(dest).items():
                        real[os.path.join(dest, rel)] = (0, token(v[1])) if v[0] == "f" else (1, []) if v[0] == "d" else (9, [])
                    if thru:
                        real = {k: v for k, v in real.items() if v[0] != 1}
                        mfs = {k: v for k, v in mfs.items() if v[0] != 1}
                    if mfs != real:
                        only_i = sorted(set(real) - set(mfs))[:3]
                        only_m = sorted(set(mfs) - set(real))[:3]
                        diff = [q for q in real if q in mfs and real[q] != mfs[q]][:3]
                        problem = ("corr", f"extracted tree differs from the model's extraction of its own entries: "
                                           f"only on disk {only_i}, only in model {only_m}, different {diff}")
                    else:
                        chk.count("archive_model_roundtrips")
                        if any(any(ord(ch) > 127 for ch in q) for q in mfs):
                            chk.count("archive_model_roundtrips_non_ascii")
            nontriv = len(case["includes"]) >= 1 and len(im) >= 5
            if nontriv:
                distinct.add(sha(json.dumps([sorted(im), case["includes"]], sort_keys=True).encode()))
        if problem:
            kind, why = problem
            if kind == "machinery":
                chk.violation("broken-obligation", "corr:archive", dict(input=desc, note=why), no_input=True)
            else:
                chk.violation("counterexample" if kind == "oracle" else "broken-obligation",
                              "oracle:roundtrip" if kind == "oracle" else "corr:archive",
                              dict(input=desc, clause=why, impl=dict(archive=ar, entries=[(e["path"], e["type"], e["len"]) for e in lt.get("entries", [])][:60], extract=ex),
                                   model=None if mm is None else sorted(mm)[:60]),
                              no_input=(kind != "oracle"))
            return False
        if ci == 1:
            chk.sample(dict(archive_case=dict(includes=case["includes"], tree=tree_desc(case["target_dir"])[:25],
                                              archive_ok=ar.get("ok"), entries=len(lt.get("entries", [])))))
    for case in cases:
        rm(case["dir"])
    return True


def tree_desc(root):
    out = []
    for rel, v in sorted(tree_listing(root).items()):
        out.append([rel, v[0], (v[1].hex()[:24] if v[0] == "f" else v[1]) if len(v) > 1 else ""])
    return out


# ----------------------------------------------------------------------------- path strings

PIECES = [b"target", b"target", b"a", b"b", b"..", b".", b"", b"targetx", b"nextest", b"\xc3\xa9",
          b"x y", b"...", b".a", b"\xf0\x9d\x84\x9e"]
BAD_UTF8 = [b"\xff", b"\xc0\xaf", b"\xed\xa0\x80", b"\xf4\x90\x80\x80", b"\xe2\x82", b"\x80", b"\xf8\x88\x80\x80\x80",
            b"\xc3", b"\xe0\x80\x80", b"\xf0\x80\x80\x80"]


def gen_path_bytes(r):
    k = r.random()
    n = r.randint(0, 5)
    parts = [r.choice(PIECES) for _ in range(n)]
    if k < 0.5 and parts:
        parts[0] = b"target"
    s = b"/".join(parts)
    if r.random() < 0.15:
        s = b"/" + s
    if r.random() < 0.1:
        s = b"./" + s
    if r.random() < 0.1:
        s += b"/"
    if r.random() < 0.12:
        i = r.randint(0, len(s))
        s = s[:i] + r.choice(BAD_UTF8) + s[i:]
    return s


def py_path_ok(raw):
    """independent statement: valid UTF-8, first component `target`, every component normal"""
    try:
        s = raw.decode("utf-8")
    except UnicodeDecodeError:
        return False
    if s.startswith("/") or s == "." or s.startswith("./"):
        return False
    parts = [p for p in s.split("/") if p not in ("", ".")]
    return bool(parts) and parts[0] == "target" and ".." not in parts


def section_components(chk, r, binary, n):
    raws = [b"target/a", b"target", b"", b".", b"./target/a", b"/target/a", b"target/../a", b"target//a/./b/",
            b"target/..", b"..", b"targetx/a", b"Target/a", b"target\\..\\a", b"target/a\0b"]
    while len(raws) < n:
        raws.append(gen_path_bytes(r))
    impl = harness(binary, [dict(op="components", hex=x.hex()) for x in raws])
    model = vlib.coq_eval("c19p", IMPORTS, [f"enc_path_checks {cq_bytes(x)}" for x in raws], PRELUDE)
    for raw, i, m in zip(raws, impl, model):
        chk.count("path_cases")
        utf8_ok, (comps, (tgt_ok, ok)) = m
        want_ok = py_path_ok(raw)
        chk.count(f"path_accepted={int(want_ok)}")
        impl_ok = bool(i["utf8"]) and i.get("starts_with_target") and all(c[0] == 3 for c in i["components"])
        bad = None
        if bool(utf8_ok) != bool(i["utf8"]):
            bad = "UTF-8 validity"
        elif utf8_ok:
            mc = [[k, vlib.decode_str(nm)] for k, nm in comps]
            if mc != i["components"]:
                bad = f"components: implementation {i['components']}, model {mc}"
            elif bool(tgt_ok) != bool(i["starts_with_target"]):
                bad = "starts_with(\"target\")"
        if bad is None and bool(ok) != impl_ok:
            bad = "acceptance"
        if bad or impl_ok != want_ok:
            chk.violation("counterexample" if impl_ok != want_ok else "broken-obligation", "corr:path-checks",
                          dict(input=raw.hex(), text=raw.decode("utf-8", "replace"), impl=i, model=m,
                               clause=f"path validation disagrees on {bad or 'the documented rule'}; "
                                      f"documented rule accepts: {want_ok}"),
                          no_input=(impl_ok == want_ok))
            return False
    chk.sample(dict(path_check=raws[7].decode(), components=impl[7]["components"]))
    return True


INC_PATHS = ["foo", "foo/bar", "foo/./bar", "./foo/bar", ".", "", "/foo/bar", "foo/../bar", "../foo", "foo//bar",
             "foo/", "a/b/c/d/e", "..", "foo/..", "é/x y", "/", "foo/.../bar"]


def section_include(chk, r, binary, n):
    paths = list(INC_PATHS)
    while len(paths) < n:
        parts = [r.choice(["a", "b", ".", "..", "", "é", "c d", "..."]) for _ in range(r.randint(1, 4))]
        paths.append(("/" if r.random() < 0.1 else "") + "/".join(parts))
    scratch = fresh_dir("include")
    cases = []
    for p in paths:
        depth = r.choice([None, 0, 1, 5, "infinite", -1])
        om = r.choice([None, "ignore", "warn", "error"])
        cases.append(dict(path=p, depth=depth, on_missing=om))
    impl = harness(binary, [dict(op="include", scratch=scratch, config=include_toml([c])) for c in cases])
    model = vlib.coq_eval("c19i", IMPORTS, [f"enc_include {coq_str(c['path'])}" for c in cases], PRELUDE)
    ok = True
    for c, i, m in zip(cases, impl, model):
        chk.count("include_cases")
        valid, rel = m
        want_valid = bool(valid) and c["depth"] != -1
        # independent rule: relative, no `..`
        parts = c["path"].split("/")
        py_valid = not c["path"].startswith("/") and ".." not in parts
        if bool(i["ok"]) != want_valid or py_valid != bool(valid):
            chk.violation("counterexample" if py_valid != bool(i["ok"]) and c["depth"] != -1 else "broken-obligation",
                          "corr:include-parse",
                          dict(input=c, impl=i, model=m, clause="archive.include paths must be relative without `..`"),
                          no_input=not (py_valid != bool(i["ok"]) and c["depth"] != -1))
            ok = False
            break
        if i["ok"]:
            inc = i["include"][0]
            want_join = "/".join(["target"] + [vlib.decode_str(x) for x in rel])
            want_depth = 16 if c["depth"] is None else c["depth"]
            if inc["joined"] != want_join or inc["depth"] != want_depth or inc["on_missing"] != (c["on_missing"] or "warn"):
                chk.violation("broken-obligation", "corr:include-parse",
                              dict(input=c, impl=i, model=dict(joined=want_join, depth=want_depth)), no_input=True)
                ok = False
                break
    rm(scratch)
    chk.sample(dict(include_parse=cases[2], impl=impl[2]))
    return ok


def section_mapper(chk, r, binary, n):
    ws_new = fresh_dir("map-ws")
    tg_new = fresh_dir("map-target")
    cases, exprs = [], []
    for _ in range(n):
        orig_target = r.choice(["/o/target", "/o/t/x", FIXTURE_WS + "/target"])
        bins = {}
        for i in range(r.randint(1, 3)):
            base = r.choice([orig_target, orig_target, orig_target + "x", "/elsewhere"])
            path = base + "/" + "/".join(r.choice(["debug", "deps", "a", "é"]) for _ in range(r.randint(1, 3)))
            bid = f"crate_a::b{i}"
            bins[bid] = {"binary-id": bid, "binary-name": f"b{i}", "package-id": r.choice([PKG_A, PKG_B]),
                         "kind": "test", "binary-path": path, "build-platform": "target"}
        remap_t, remap_w = r.random() < 0.7, r.random() < 0.6
        orig_ws = r.choice([FIXTURE_WS, FIXTURE_WS, "/home/fakeuser", "/not/the/root"])
        summary = {"rust-build-meta": {"target-directory": orig_target, "base-output-directories": [],
                                       "non-test-binaries": {}, "build-script-out-dirs": {}, "linked-paths": [],
                                       "target-platforms": [], "target-platform": None,
                                       "platforms": {"host": {"platform": {"triple": "x86_64-unknown-linux-gnu",
                                                                           "target-features": "unknown"},
                                                              "libdir": {"status": "unavailable", "reason": "c19"}},
                                                     "targets": []}},
                   "rust-binaries": bins}
        cases.append(dict(op="mapper", summary=summary, orig_ws=orig_ws, orig_target=orig_target,
                          ws_remap=ws_new if remap_w else None, target_remap=tg_new if remap_t else None))

        def comps(p):
            return cq_path([c for c in p.split("/") if c])

        mt = f"(Some ({comps(orig_target)}, {comps(os.path.realpath(tg_new))}))" if remap_t else "None"
        mw = f"(Some ({comps(orig_ws)}, {comps(os.path.realpath(ws_new))}))" if remap_w else "None"
        for bid, b in sorted(bins.items()):
            cwd = FIXTURE_WS + ("/crate-a" if b["package-id"] == PKG_A else "/crate-b")
            exprs.append(f"[remap {mt} {comps(b['binary-path'])}; remap {mw} {comps(cwd)}]")
    impl = harness(binary, cases)
    model = vlib.coq_eval("c19m", IMPORTS, exprs, PRELUDE)
    k = 0
    ok = True
    for c, i in zip(cases, impl):
        chk.count("mapper_cases")
        if "error" in i:
            chk.violation("broken-obligation", "corr:path-mapper", dict(input=c, impl=i), no_input=True)
            return False
        for art in i["artifacts"]:
            mb, mc = model[k]
            k += 1
            want = ["/" + "/".join(vlib.decode_str(x) for x in mb), "/" + "/".join(vlib.decode_str(x) for x in mc)]
            # independent rule: component-wise prefix substitution
            orig = c["summary"]["rust-binaries"][art[0]]["binary-path"]
            py = orig
            if c["target_remap"] and (orig == c["orig_target"] or orig.startswith(c["orig_target"] + "/")):
                py = os.path.realpath(c["target_remap"]) + orig[len(c["orig_target"]):]
            if [art[1], art[2]] != want or art[1] != py:
                chk.violation("counterexample" if art[1] != py else "broken-obligation", "corr:path-mapper",
                              dict(input=c, impl=art, model=want, documented=py,
                                   clause="paths below the original target directory move to the new one, others stay"),
                              no_input=(art[1] == py))
                ok = False
                break
        if not ok:
            break
    rm(ws_new)
    rm(tg_new)
    chk.sample(dict(mapper_case=dict(orig_target=cases[0]["orig_target"], artifacts=impl[0].get("artifacts"))))
    return ok


# ----------------------------------------------------------------------------- hostile archives

TYPEFLAG = {"file": b"0", "dir": b"5", "symlink": b"2", "hardlink": b"1", "char": b"3", "fifo": b"6"}


def spec_entry(raw, kind="file", data=b"", link=b"", cksum_ok=True, mode=0o644):
    return dict(raw=raw, kind=kind, data=data, link=link, cksum_ok=cksum_ok, mode=mode)


def spec_to_tar(e):
    return tar_entry(e["raw"], e["data"] if e["kind"] in ("file",) else b"", typ=TYPEFLAG[e["kind"]],
                     link=e["link"], mode=e["mode"], cksum_delta=0 if e["cksum_ok"] else 1,
                     major=1 if e["kind"] == "char" else None)


def spec_to_coq(e):
    k = e["kind"]
    if k == "symlink":
        kind = f"(KSymlink {coq_str(e['link'].decode())})"
    elif k == "hardlink":
        kind = f"(KHardlink {coq_str(e['link'].decode())})"
    elif k == "dir":
        kind = "KDir"
    else:
        kind = "KFile"
    data = token(e["data"]) if k == "file" else []
    return (f"{{| te_raw := {cq_bytes(e['raw'])}; te_cksum_ok := {vlib.coq_bool(e['cksum_ok'])}; "
            f"te_kind := {kind}; te_data := {cq_bytes(data)} |}}")


def benign_entries(r, prefix=b"target/ok"):
    out = []
    used = set()
    for _ in range(r.randint(0, 3)):
        nm = prefix + b"%d/" % r.randrange(3) + r.choice([b"f", b"g", b"\xc3\xa9"]) + b"%d" % r.randrange(50)
        if nm in used:
            continue
        used.add(nm)
        out.append(spec_entry(nm, data=bytes(r.randrange(256) for _ in range(r.choice([0, 3, 7])))))
    return out


PRESEED_KINDS = ["pre-link-up", "pre-link-abs", "pre-link-chain", "pre-target-link", "pre-final-link",
                 "pre-deep-link", "pre-benign", "pre-no-overwrite", "pre-link-up", "pre-benign", "pre-benign"]


def gen_preseed(r, sb, kind):
    """a destination that is not empty (what --extract-overwrite allows) + an archive of ORDINARY
    entries whose paths go through what is there. Returns (preseed, specs, overwrite); preseed =
    [(op, path relative to dest, argument)] with op in dir | file | link."""
    outside = os.path.join(sb, "outside")
    E = spec_entry
    pre = benign_entries(r)
    post = benign_entries(r, b"target/after")
    ow = True
    evil = r.choice([b"evil", b"sub/evil", b"dest/evil", b"outside/evil", b"target/evil", b"\xc3\xa9/evil"])
    if kind == "pre-link-up":
        tgt = r.choice(["..", "../..", ".", "../../outside", "../", "./.."])
        seed = [("dir", "target", None), ("link", "target/l", tgt)]
        specs = [E(b"target/l/" + evil, data=b"EVIL")]
    elif kind == "pre-link-abs":
        tgt = r.choice([outside, "/", os.path.dirname(sb), os.path.join(sb, "dest")])
        seed = [("dir", "target", None), ("link", "target/l", tgt)]
        specs = [r.choice([E(b"target/l/" + evil, data=b"EVIL"), E(b"target/l", kind="dir", mode=0o777),
                           E(b"target/l", kind="dir", mode=0o700)])]
    elif kind == "pre-link-chain":
        last = r.choice(["../..", "..", outside, "../../outside", "c"])
        seed = [("dir", "target", None), ("link", "target/a", "b"), ("link", "target/b", last),
                ("link", "target/c", r.choice(["a", "..", "nowhere"]))]
        specs = [E(b"target/" + r.choice([b"a", b"b", b"c"]) + b"/" + evil, data=b"EVIL")]
    elif kind == "pre-target-link":
        tgt = r.choice(["sub", "sub", ".", "../outside", outside, "nowhere", "sub/deeper"])
        seed = [("dir", "sub", None), ("link", "target", tgt)]
        specs = [E(b"target/" + evil, data=b"EVIL")]
        ow = r.random() < 0.7
    elif kind == "pre-final-link":
        tgt = r.choice([os.path.join(outside, "canary"), "../canary-in-dest", outside, "..", "nowhere"])
        seed = [("dir", "target", None), ("link", "target/s", tgt)]
        specs = [r.choice([E(b"target/s", data=b"REPLACED"), E(b"target/s", kind="dir", mode=0o777)])]
    elif kind == "pre-deep-link":
        seed = [("dir", "target", None), ("dir", "target/d1", None), ("dir", "target/d1/d2", None),
                ("file", "target/d1/keep", b"KEEP"),
                ("link", "target/d1/d2/l", r.choice(["../../..", "../../../..", "../..", os.path.join(sb, "outside")]))]
        specs = [E(b"target/d1/new", data=b"NEW"), E(b"target/d1/d2/l/" + evil, data=b"EVIL")]
    elif kind == "pre-benign":
        seed = [("dir", "target", None), ("dir", "target/ok0", None), ("file", "target/ok0/f1", b"OLD"),
                ("file", "target/plain", b"PLAIN"), ("dir", "target/dd", None), ("dir", "target/dd/inner", None)]
        if r.random() < 0.4:
            seed.append(("link", "target/elsewhere", r.choice(["..", outside, "plain"])))
        specs = [r.choice([E(b"target/ok0/f1", data=b"NEW1"), E(b"target/dd", kind="dir", mode=0o755),
                           E(b"target/dd/inner/x", data=b"X"), E(b"target/dd", data=b"FILE-OVER-DIR"),
                           E(b"target/plain", kind="dir", mode=0o755), E(b"target/plain/below", data=b"B"),
                           E(b"target/plain", data=b"PLAIN2"), E(b"target/new/deep/er", data=b"D"),
                           E(b"target/ok0", data=b"FILE-OVER-IMPLICIT-DIR"), E(b"target", kind="dir", mode=0o755)])
                 for _ in range(r.randint(1, 3))]
    else:   # pre-no-overwrite
        seed = [r.choice([("dir", "target", None), ("file", "target", b"A-FILE"), ("link", "target", "sub"),
                          ("link", "target", outside), ("link", "target", "nowhere"), ("link", "target", "/")]),
                ("dir", "sub", None)]
        specs = [E(b"target/x", data=b"X")]
        ow = False
    return seed, pre + specs + post, ow


def apply_preseed(dest, preseed):
    for op, rel, arg in preseed:
        p = os.path.join(dest, rel)
        if op == "dir":
            os.makedirs(p, exist_ok=True)
        elif op == "file":
            open(p, "wb").write(arg if isinstance(arg, bytes) else bytes.fromhex(arg))
        else:
            os.symlink(arg, p)


def coq_fs(sb):
    """the model's initial file system: every node of the sandbox (and the directories above it)"""
    rows = []
    top = os.path.realpath(sb)
    for dirpath, dirs, files in os.walk(top, followlinks=False):
        for n in dirs + files:
            p = os.path.join(dirpath, n)
            st = os.lstat(p)
            comps = cq_path([c for c in p.split("/") if c])
            if stat.S_ISLNK(st.st_mode):
                rows.append(f"({comps}, NLink (components {coq_str(os.readlink(p))}))")
            elif stat.S_ISDIR(st.st_mode):
                rows.append(f"({comps}, NDir)")
            elif stat.S_ISREG(st.st_mode):
                rows.append(f"({comps}, NFile {cq_bytes(token(open(p, 'rb').read()))})")
    parts = [c for c in top.split("/") if c]
    for i in range(len(parts) + 1):
        rows.append(f"({cq_path(parts[:i])}, NDir)")
    return coq_list(rows)


def gen_hostile(r, sb, meta):
    """one hostile (or benign) archive for the sandbox `sb` (contains dest/, outside/, canary).
    Returns dict(kind, blob, specs | None (model not applicable), has_link, preseed, overwrite)."""
    outside = os.path.join(sb, "outside").encode()
    canary = os.path.join(sb, "outside", "canary").encode()
    kind = r.choice(PRESEED_KINDS + ["dotdot", "absolute", "no-target", "non-utf8", "bad-cksum", "symlink-chain", "symlink-chain",
                     "symlink-dir-chmod", "symlink-replace", "hardlink", "device", "truncated", "corrupt",
                     "huge-size", "gnu-long", "pax-path", "benign", "magic", "trailing-garbage", "dir-file-clash"])
    pre = benign_entries(r)
    post = benign_entries(r, b"target/after")
    specs, raw_tar, has_link = None, None, False
    preseed, overwrite = [], r.random() < 0.3
    if kind.startswith("pre-"):
        preseed, specs, overwrite = gen_preseed(r, sb, kind)
    elif kind == "dotdot":
        bad = r.choice([b"target/../evil", b"target/a/../../evil", b"../evil", b"target/..", b"target/a/../../../outside/evil"])
        specs = pre + [spec_entry(bad, data=b"EVIL")] + post
    elif kind == "absolute":
        bad = r.choice([outside + b"/evil", b"/target/evil", b"/evil_c19", b"//target/x"])
        specs = pre + [spec_entry(bad, data=b"EVIL")] + post
    elif kind == "no-target":
        bad = r.choice([b"evil", b"foo/target/x", b"targetx/a", b"./target/a", b"Target/a", b"", b".", b"nextest/x"])
        specs = pre + [spec_entry(bad, data=b"EVIL")] + post
    elif kind == "non-utf8":
        bad = b"target/" + r.choice(BAD_UTF8) + b"x"
        specs = pre + [spec_entry(bad, data=b"EVIL")] + post
    elif kind == "bad-cksum":
        specs = pre + [spec_entry(b"target/cks", data=b"DATA", cksum_ok=False)] + post
    elif kind == "symlink-chain":
        has_link = True
        tgt = r.choice([b"..", b"../..", outside, b"../../outside", b".", b"/"])
        deep = r.choice([b"target/l/evil", b"target/l/sub/evil", b"target/l/outside/evil"])
        specs = pre + [spec_entry(b"target/l", kind="symlink", link=tgt), spec_entry(deep, data=b"EVIL")] + post
    elif kind == "symlink-dir-chmod":
        has_link = True
        specs = pre + [spec_entry(b"target/x", kind="symlink", link=r.choice([outside, b"../../outside"])),
                       spec_entry(b"target/x", kind="dir", mode=0o777)] + post
    elif kind == "symlink-replace":
        has_link = True
        specs = pre + [spec_entry(b"target/s", kind="symlink", link=canary),
                       spec_entry(b"target/s", data=b"REPLACED")] + post
    elif kind == "hardlink":
        has_link = True
        tgt = r.choice([canary, b"../outside/canary", b"../../outside/canary", b"target/ok0/f1", b"../canary-in-dest"])
        specs = pre + [spec_entry(b"target/h", kind="hardlink", link=tgt),
                       spec_entry(b"target/h", data=b"OVERWRITE")] + post
    elif kind == "device":
        specs = pre + [spec_entry(b"target/dev", kind=r.choice(["char", "fifo"]))] + post
    elif kind == "dir-file-clash":
        specs = pre + [spec_entry(b"target/d", kind="dir", mode=0o755), spec_entry(b"target/d/in", data=b"IN")] + post
    elif kind == "benign":
        specs = pre + post
    elif kind == "huge-size":
        raw_tar = b"".join(spec_to_tar(e) for e in pre) + \
            tar_entry(b"target/huge", b"tiny", declared_size=r.choice([2 ** 33, 2 ** 62, 8 ** 11 - 1, 2 ** 63 - 1]))
    elif kind == "gnu-long":
        name = r.choice([b"target/" + b"a/" * 60 + b"../" * 70 + b"evil", b"../" * 40 + b"evil",
                         b"target/" + b"long/" * 50 + b"f"])
        raw_tar = b"".join(spec_to_tar(e) for e in pre) + gnu_longname(name) + tar_entry(b"target/short", b"LONG") + TAR_END
    elif kind == "pax-path":
        name = r.choice([b"../../evil", outside + b"/evil", b"target/../../evil", b"target/paxok"])
        raw_tar = b"".join(spec_to_tar(e) for e in pre) + pax_path(name) + tar_entry(b"target/short", b"PAX") + TAR_END
    with_meta = specs is not None and r.random() < 0.4
    if specs is not None:
        if with_meta:
            specs = [spec_entry(BIN_META.encode(), data=meta[0]), spec_entry(CARGO_META.encode(), data=meta[1])] + specs
        raw_tar = b"".join(spec_to_tar(e) for e in specs) + TAR_END
    blob = None
    if kind in ("truncated", "corrupt", "magic", "trailing-garbage"):
        base = b"".join(spec_to_tar(e) for e in benign_entries(r) + [spec_entry(b"target/zz", data=b"Z" * 700)]) + TAR_END
        blob = zstd_store(base)
        if kind == "truncated":
            blob = blob[:r.randint(0, len(blob) - 1)]
        elif kind == "corrupt":
            b = bytearray(blob)
            for _ in range(r.randint(1, 4)):
                b[r.randrange(len(b))] ^= 1 << r.randrange(8)
            blob = bytes(b)
        elif kind == "magic":
            blob = r.choice([b"", b"not zstd at all", b"\x28\xb5\x2f\xfd", blob[4:], b"\x1f\x8b" + blob])
        else:
            blob = blob + r.choice([b"garbage", blob, b"\x28\xb5\x2f\xfd\x00"])
    else:
        blob = zstd_store(raw_tar)
    return dict(kind=kind, blob=blob, specs=specs, has_link=has_link, with_meta=with_meta,
                preseed=preseed, overwrite=overwrite)


REJECT = {"non-utf8", "no-target-prefix", "invalid-component", "link-entry", "invalid-checksum", "checksum-read", "io",
          "destination-exists"}


def impl_class(ex):
    if ex.get("ok"):
        return 0
    e = ex.get("err")
    if e in REJECT:
        return 1
    if e == "write-file":
        return 2
    return 0      # metadata-not-found / metadata-deserialize ...: every entry was accepted and unpacked


def make_sandbox(name):
    sb = fresh_dir(name)
    os.mkdir(os.path.join(sb, "dest"))
    os.mkdir(os.path.join(sb, "outside"))
    os.chmod(os.path.join(sb, "outside"), 0o700)
    open(os.path.join(sb, "outside", "canary"), "wb").write(b"CANARY")
    os.chmod(os.path.join(sb, "outside", "canary"), 0o600)
    open(os.path.join(sb, "canary.txt"), "wb").write(b"TOP")
    open(os.path.join(sb, "dest", "canary-in-dest"), "wb").write(b"IN-DEST")
    return sb


def reference_metadata(binary):
    """valid binaries/cargo metadata bytes, taken from an archive nextest itself makes"""
    d = fresh_dir("refmeta")
    case = gen_build(random.Random(7), d)
    out = os.path.join(d, "ref.tar.zst")
    res = harness(binary, [dict(op="archive", summary=case["summary"], config="", out=out, scratch=d),
                           dict(op="list_tar", archive=out)])
    es = res[1]["entries"]
    meta = (bytes.fromhex(es[0]["data"]), bytes.fromhex(es[1]["data"]))
    rm(d)
    return meta


def probe_flavour(binary):
    """which repairs does the tree under test have? f19: link entries are rejected; f23: an entry is
    not unpacked through or onto a link that already exists in the destination"""
    sb = make_sandbox("probe")
    a = os.path.join(sb, "p.tar.zst")
    open(a, "wb").write(zstd_store(tar_entry(b"target/l", typ=b"2", link=b"x") + TAR_END))
    ex = harness(binary, [dict(op="extract", archive=a, dest=os.path.join(sb, "dest"))])[0]
    rm(sb)
    sb = make_sandbox("probe")
    dest = os.path.join(sb, "dest")
    apply_preseed(dest, [("dir", "target", None), ("link", "target/a", "..")])
    open(a, "wb").write(zstd_store(tar_entry(b"target/a/probe", b"P") + TAR_END))
    ex2 = harness(binary, [dict(op="extract", archive=a, dest=dest, overwrite=True)])[0]
    f23 = not os.path.lexists(os.path.join(dest, "probe"))     # whatever the reported outcome
    rm(sb)
    return dict(f19=ex.get("err") == "link-entry", f23=f23)


def listed_finding(fid):
    """is the finding still listed as open in known_findings.json? (a `fixed:` entry suppresses nothing)"""
    return any(f.get("property") == PROP and f.get("id") == fid
               for f in vlib.known_findings().get("findings", []))


def section_hostile(chk, r, binary, n, flav, nextest=None, n_cli=0, corpus_cases=(), sandbox_names=None):
    meta = reference_metadata(binary)
    fixed, fixed23 = flav["f19"], flav["f23"]
    items, hcases = [], []
    for hi in range(n):
        sb = make_sandbox(sandbox_names[hi] if sandbox_names else f"host-{hi}")
        seed = r.randrange(2 ** 32)
        h = corpus_cases[hi] if hi < len(corpus_cases) else None
        out_s = os.path.join(sb, "outside")
        if h is None:
            h = gen_hostile(random.Random(seed), sb, meta)
        elif "blob_hex" in h:
            h = dict(kind=h.get("kind", "replay"), blob=bytes.fromhex(h["blob_hex"]), specs=None,
                     has_link=h.get("has_link", False), with_meta=False,
                     preseed=[(op, rel, (arg or "").replace("@OUTSIDE@", out_s) if op == "link" else arg)
                              for op, rel, arg in h.get("preseed", [])],
                     overwrite=h.get("overwrite", False))
        else:
            h = dict(h)
            h["specs"] = [spec_entry(bytes.fromhex(s["raw"]).replace(b"@OUTSIDE@", out_s.encode()),
                                     s["kind"], bytes.fromhex(s["data"]),
                                     bytes.fromhex(s["link"]).replace(b"@OUTSIDE@", out_s.encode()),
                                     s["cksum_ok"], s["mode"]) for s in h["specs"]]
            h["blob"] = zstd_store(b"".join(spec_to_tar(e) for e in h["specs"]) + TAR_END)
            h["with_meta"] = False
            h["preseed"] = [(op, rel, (arg or "").replace("@OUTSIDE@", out_s) if op == "link" else arg)
                            for op, rel, arg in h.get("preseed", [])]
            h["overwrite"] = h.get("overwrite", False)
        h.update(sb=sb, seed=seed, archive=os.path.join(sb, "hostile.tar.zst"))
        open(h["archive"], "wb").write(h["blob"])
        apply_preseed(os.path.join(sb, "dest"), h["preseed"])
        h["pre_link"] = any(op == "link" for op, _, _ in h["preseed"])
        h["fs0"] = coq_fs(sb) if h["specs"] is not None else None
        h["before"] = fs_snapshot(sb, skip=(os.path.join(sb, "dest", "target"),))
        h["cli"] = nextest is not None and len(corpus_cases) <= hi < len(corpus_cases) + n_cli
        items.append(h)
        if not h["cli"]:
            hcases.append(dict(op="extract", archive=h["archive"], dest=os.path.join(sb, "dest"),
                               overwrite=h["overwrite"]))
    res = iter(harness(binary, hcases))
    for h in items:
        if h["cli"]:
            env = dict(os.environ)
            for k in list(env):
                if k.startswith("NEXTEST") or k.startswith("CARGO_"):
                    env.pop(k)
            p = subprocess.run([nextest, "nextest", "list", "--archive-file", h["archive"], "--extract-to",
                                os.path.join(h["sb"], "dest")] + (["--extract-overwrite"] if h["overwrite"] else []),
                               cwd=h["sb"], env=env, capture_output=True, timeout=120)
            h["rc"] = p.returncode
            h["ex"] = dict(cli=True, rc=p.returncode, stderr=p.stderr.decode(errors="replace")[-400:])
        else:
            h["ex"] = next(res)
    exprs, idx = [], []
    for hi, h in enumerate(items):
        if h["specs"] is not None and not h["cli"] and not (h["kind"] == "hardlink" and not fixed) \
                and not (h["preseed"] and not fixed23):
            dest = [c for c in os.path.realpath(os.path.join(h["sb"], "dest")).split("/") if c]
            exprs.append(f"enc_x (extract_to {vlib.coq_bool(not fixed)} {vlib.coq_bool(not fixed23)} "
                         f"{vlib.coq_bool(h['overwrite'])} {cq_path(dest)} {h['fs0']} "
                         f"{coq_list([spec_to_coq(e) for e in h['specs']])})")
            idx.append(hi)
    model = dict(zip(idx, vlib.coq_eval("c19h", IMPORTS, exprs, PRELUDE)))
    ok = True
    for hi, h in enumerate(items):
        sb = h["sb"]
        chk.count("hostile_cases")
        chk.count("hostile_kind=" + h["kind"])
        if h["preseed"]:
            chk.count("hostile_preseeded")
            chk.count("hostile_preseeded_links", int(h["pre_link"]))
            chk.count(f"hostile_preseeded_overwrite={int(h['overwrite'])}")
        after = fs_snapshot(sb, skip=(os.path.join(sb, "dest", "target"),))
        desc = dict(kind=h["kind"], gen_seed=h["seed"], with_meta=h.get("with_meta"), sandbox=os.path.basename(sb),
                    overwrite=h["overwrite"],
                    preseed=[[op, rel, (arg.hex() if isinstance(arg, bytes) else arg)] for op, rel, arg in h["preseed"]],
                    entries=None if h["specs"] is None else
                    [dict(raw=e["raw"].decode("utf-8", "backslashreplace"), kind=e["kind"],
                          link=e["link"].decode("utf-8", "backslashreplace"), size=len(e["data"]),
                          cksum_ok=e["cksum_ok"], mode=oct(e["mode"])) for e in h["specs"]],
                    archive_hex=h["blob"].hex() if len(h["blob"]) < 6000 else h["blob"][:6000].hex() + "...")
        why = None
        changed = sorted(k for k in set(h["before"]) | set(after) if h["before"].get(k) != after.get(k))
        if changed:
            k = changed[0]
            why = (f"extraction touched {k} outside <dest>/target: before {h['before'].get(k)}, after {after.get(k)}"
                   + (f" (and {len(changed) - 1} more)" if len(changed) > 1 else ""))
        elif os.path.lexists("/evil_c19") or os.path.lexists("/evil"):
            why = "extraction created a file in the root directory"
        elif h["cli"] and (h["rc"] < 0 or h["rc"] >= 128):
            why = f"cargo-nextest died with status {h['rc']} on a malformed archive"
        elif "panic" in h["ex"]:
            why = f"extract_archive panicked: {h['ex']['panic'][:200]}"
        if why is None and h["specs"] is not None and not h["cli"] and not h["preseed"]:
            bad_i = next((i for i, e in enumerate(h["specs"]) if not py_path_ok(e["raw"]) or not e["cksum_ok"]), None)
            if bad_i is not None and impl_class(h["ex"]) != 1 \
                    and not any(e["kind"] in ("symlink", "hardlink") for e in h["specs"][:bad_i]):
                e = h["specs"][bad_i]
                why = (f"entry {bad_i} ({e['raw'].decode('utf-8', 'backslashreplace')!r}, checksum "
                       f"{'ok' if e['cksum_ok'] else 'bad'}) has a non-normal path or a bad checksum and was not rejected")
        if why:
            if not fixed and h["has_link"] and listed_finding("F19"):
                chk.known_finding("F19 an archive with a symbolic link entry followed by an entry through it "
                                  "writes or changes permissions outside <dest>/target "
                                  "(unarchiver accepts link entries)")
                chk.count("hostile_known_F19")
            else:
                if h["pre_link"] and not h["has_link"]:
                    why += (" [the destination already contained a symbolic link below <dest> and the archive "
                            "holds ordinary entries only: F23, repaired by `fix: refuse to extract an archive "
                            "entry through or onto a symbolic link in the destination`]")
                chk.violation("counterexample", "oracle:confined", dict(input=desc, clause=why, impl=h["ex"]))
                ok = False
                break
        if hi in model:
            status, (code, nodes) = model[hi]
            ic = impl_class(h["ex"])
            mfs = {}
            for comps, (k, data) in reversed(nodes):
                mfs["/" + "/".join(vlib.decode_str(c) for c in comps)] = (k, list(data))
            bad = None
            if ic != status:
                bad = f"outcome class: implementation {ic} ({h['ex'].get('err')}), model {status} (code {code})"
            else:
                dest = os.path.realpath(os.path.join(sb, "dest"))
                real = {os.path.join(dest, k): v for k, v in tree_listing(dest).items()}
                for p, (k, data) in mfs.items():
                    if p == "/" or not p.startswith(os.path.realpath(sb) + "/"):
                        continue          # the directories above the sandbox
                    try:
                        st = os.lstat(p)
                    except OSError:
                        bad = f"model writes {p}, the implementation did not"
                        break
                    if k == 0 and not (stat.S_ISREG(st.st_mode) and token(open(p, "rb").read()) == data):
                        bad = f"{p}: model has a file with content {data}"
                        break
                    if k == 1 and not (stat.S_ISDIR(st.st_mode) or (stat.S_ISLNK(st.st_mode) and not fixed23)):
                        bad = f"{p}: model has a directory"
                        break
                    if k == 2 and not stat.S_ISLNK(st.st_mode):
                        bad = f"{p}: model has a link"
                        break
                if not bad:
                    for p, v in real.items():
                        if (v[0] != "d" or fixed23) and p not in mfs:
                            bad = f"the implementation wrote {p}, the model does not"
                            break
            if bad:
                chk.violation("broken-obligation", "corr:extract",
                              dict(input=desc, impl=h["ex"], model=dict(status=status, code=code, fs=sorted(mfs)[:30]),
                                   note=bad + "; the confinement oracle accepted this run"), no_input=True)
                ok = False
                break
            chk.count(f"hostile_model_status={status}")
            if h["preseed"]:
                chk.count(f"hostile_preseeded_model_status={status}")
        if hi == 2:
            chk.sample(dict(hostile_archive=dict(kind=h["kind"], entries=desc["entries"], result=h["ex"])))
        if h["pre_link"] and "pre_sampled" not in chk.counts:
            chk.count("pre_sampled")
            chk.sample(dict(preseeded_destination=dict(kind=h["kind"], preseed=desc["preseed"], overwrite=h["overwrite"],
                                                       entries=desc["entries"], result=h["ex"])))
    for h in items:
        rm(h["sb"])
    return ok


# ----------------------------------------------------------------------------- crash points

TRACE = "openat,write,read,fsync,rename,renameat,renameat2,mkdir,mkdirat,unlink,unlinkat,rmdir"
OLD = b"\x09OLD-ARCHIVE-CONTENT"


def crash_build(d, nbytes, r):
    """a small synthetic build with one big incompressible extra file"""
    case = gen_build(random.Random(11), d)
    big = os.path.join(case["target_dir"], "xbig")
    os.makedirs(big, exist_ok=True)
    open(os.path.join(big, "blob"), "wb").write(r.randbytes(nbytes))
    case["includes"] = [dict(path="xbig", depth=2, on_missing="error")]
    return case


def parse_strace(log, tmp_marker=".atomicwrite"):
    """per syscall: how many calls happened before the temporary directory was created, and in
    total; plus the outcome of the atomic-write steps"""
    counts, before = {}, None
    tmpfd = None
    steps = dict(mkdir=None, open=None, writes=[], fsync_tmp=None, rename=None, fsync_dir=[])
    for line in open(log, errors="replace"):
        name = line.split("(", 1)[0].strip()
        if not name.isidentifier():
            continue
        if before is None and name in ("mkdir", "mkdirat") and tmp_marker in line:
            before = dict(counts)
        counts[name] = counts.get(name, 0) + 1
        okay = ") = -1 E" not in line
        if name in ("mkdir", "mkdirat") and tmp_marker in line:
            steps["mkdir"] = okay
        elif name == "openat" and "tmpfile.tmp" in line:
            steps["open"] = okay
            if okay:
                tmpfd = line.rsplit("=", 1)[-1].strip().split()[0]
        elif name == "write" and tmpfd is not None and line.startswith(f"write({tmpfd},") and steps["fsync_tmp"] is None:
            steps["writes"].append(okay)
        elif name == "fsync" and tmpfd is not None and line.startswith(f"fsync({tmpfd})") and steps["fsync_tmp"] is None:
            steps["fsync_tmp"] = okay
        elif name in ("rename", "renameat", "renameat2") and "tmpfile.tmp" in line:
            steps["rename"] = okay
        elif name == "fsync" and steps["rename"] is not None:
            steps["fsync_dir"].append(okay)
    return counts, before or {}, steps


def model_outcomes(steps):
    """the step outcomes of the crash machine as observed in the system-call log"""
    outs = []
    if steps["mkdir"] is None:
        return outs, 0
    if not (steps["mkdir"] and steps["open"]):
        return ["StepErr true"], 0
    outs.append("StepOk")
    n = 0
    for w in steps["writes"]:
        if not w:
            return outs + ["StepErr true"], n + 1
        outs.append("StepOk")
        n += 1
    if steps["fsync_tmp"] is None:
        return outs + ["StepErr true"], n + 1        # the writer returned an error before finishing
    outs.append("StepOk")                           # writer returned Ok
    outs.append("StepOk" if steps["fsync_tmp"] else "StepErr true")
    if not steps["fsync_tmp"]:
        return outs, n
    if steps["rename"] is None:
        return outs, n
    outs.append("StepOk" if steps["rename"] else "StepErr true")
    if not steps["rename"]:
        return outs, n
    if steps["fsync_dir"]:
        outs.append("StepOk" if all(steps["fsync_dir"]) else "StepErr true")
    return outs, n


def dest_state(dest, old, ref_map, binary):
    """'absent' | 'old' | 'complete' | description of a broken state"""
    if not os.path.lexists(dest):
        return "absent" if old is None else "destination removed"
    data = open(dest, "rb").read()
    if old is not None and data == old:
        return "old"
    lt = harness(binary, [dict(op="list_tar", archive=dest)])[0]
    if "error" in lt:
        return f"destination is neither the old file nor a readable archive ({len(data)} bytes): {lt['error'][:120]}"
    got, dups = tar_entries_to_map(lt["entries"])
    ref = dict(ref_map)
    # the binaries metadata is regenerated per run but deterministic; compare everything
    if got != ref or dups:
        return f"destination is an archive with {len(got)} of {len(ref)} entries"
    return "complete"


def section_crash(chk, r, binary, n_inject, n_kill, nextest=None, n_cli_kill=0, rig=None):
    d = fresh_dir("crash")
    case = crash_build(d, 300_000, r)
    cfg = include_toml(case["includes"])
    dest = os.path.join(d, "out", "a.tar.zst")
    os.mkdir(os.path.join(d, "out"))
    base_case = dict(op="archive", summary=case["summary"], config=cfg, out=dest, scratch=d, zstd_level=1)
    env = dict(vlib.ENV)
    log = os.path.join(d, "strace.log")

    def run_traced(inject=None, timeout=120):
        cmd = ["strace", "-o", log, "-e", "trace=" + TRACE]
        if inject:
            cmd += ["-e", "inject=" + inject]
        p = subprocess.run(cmd + [binary, "archive"], input=json.dumps(base_case) + "\n", capture_output=True,
                           text=True, env=env, timeout=timeout)
        out = None
        try:
            out = json.loads(p.stdout.splitlines()[0]) if p.stdout.strip() else None
        except ValueError:
            pass
        return p.returncode, out

    rc, out = run_traced()
    if not out or not out.get("ok"):
        chk.violation("broken-obligation", "crash:reference-run",
                      dict(note="strace/ptrace unavailable or the reference archive run failed", rc=rc, out=out),
                      no_input=True)
        return False
    counts, before, steps = parse_strace(log)
    lt = harness(binary, [dict(op="list_tar", archive=dest)])[0]
    ref_map, _ = tar_entries_to_map(lt["entries"])
    ex = harness(binary, [dict(op="extract", archive=dest, dest=fresh_dir("crash-x"))])[0]
    if not ex.get("ok"):
        chk.violation("broken-obligation", "crash:reference-run", dict(note="reference archive does not extract", ex=ex),
                      no_input=True)
        return False
    os.remove(dest)
    chk.count("crash_reference_writes", len(steps["writes"]))
    plans = []
    errno = {"write": ["ENOSPC", "EIO", "EDQUOT"], "read": ["EIO"], "openat": ["EMFILE", "EACCES", "ENOSPC"],
             "fsync": ["EIO", "ENOSPC"], "renameat": ["EXDEV", "EACCES", "ENOSPC"], "renameat2": ["EXDEV"],
             "rename": ["EXDEV"], "mkdir": ["EACCES", "ENOSPC"], "mkdirat": ["EACCES"], "unlinkat": ["EIO"],
             "unlink": ["EIO"], "rmdir": ["EIO"]}
    pool = [s for s in errno if counts.get(s, 0) > before.get(s, 0)]
    for s in pool:                                   # first and last call of every kind, then random ones
        lo, hi = before.get(s, 0) + 1, counts[s]
        plans += [(s, lo), (s, hi)]
    while len(plans) < n_inject:
        s = r.choice(pool + ["write", "write"])
        plans.append((s, r.randint(before.get(s, 0) + 1, counts[s])))
    plans = plans[:max(n_inject, 0)]
    results = []
    for pi, (sysc, k) in enumerate(plans):
        old = OLD if pi % 2 == 0 else None
        for f in os.listdir(os.path.join(d, "out")):
            rm(os.path.join(d, "out", f))
        if old is not None:
            open(dest, "wb").write(old)
        e = r.choice(errno[sysc])
        rc, out = run_traced(f"{sysc}:error={e}:when={k}")
        _, _, st = parse_strace(log)
        state = dest_state(dest, old, ref_map, binary)
        outs, nchunks = model_outcomes(st)
        results.append(dict(inject=f"{sysc}:error={e}:when={k}", old=old is not None, rc=rc, reported=out,
                            state=state, steps=st, outcomes=outs, nchunks=nchunks))
        chk.count("crash_inject_cases")
        chk.count("crash_inject_" + sysc)
        chk.count("crash_state_" + (state if state in ("absent", "old", "complete") else "BROKEN"))
    # SIGKILL at random instants (harness process: all of its life is archive creation)
    big = crash_build(fresh_dir("crash-big"), 6_000_000, r)
    bdest = os.path.join(big["target_dir"], "..", "out.tar.zst")
    bcase = dict(op="archive", summary=big["summary"], config=include_toml(big["includes"]), out=bdest,
                 scratch=os.path.dirname(big["target_dir"]), zstd_level=9)
    t0 = time.monotonic()
    ref = harness(binary, [bcase])[0]
    T = time.monotonic() - t0
    bref, _ = tar_entries_to_map(harness(binary, [dict(op="list_tar", archive=bdest)])[0]["entries"])
    os.remove(bdest)
    kills = []
    for ki in range(n_kill if ref.get("ok") else 0):
        old = OLD if ki % 2 == 0 else None
        if os.path.lexists(bdest):
            os.remove(bdest)
        if old is not None:
            open(bdest, "wb").write(old)
        delay = r.uniform(0.02, 1.05) * T
        p = subprocess.Popen([binary, "archive"], stdin=subprocess.PIPE, stdout=subprocess.DEVNULL,
                             stderr=subprocess.DEVNULL, env=env)
        p.stdin.write((json.dumps(bcase) + "\n").encode())
        p.stdin.flush()
        time.sleep(delay)
        p.kill()
        p.wait()
        state = dest_state(bdest, old, bref, binary)
        kills.append(dict(kill_after_s=round(delay, 3), of_s=round(T, 3), old=old is not None, state=state))
        chk.count("crash_kill_cases")
        chk.count("crash_state_" + (state if state in ("absent", "old", "complete") else "BROKEN"))
        for f in os.listdir(os.path.dirname(bdest)):
            if f.startswith(".atomicwrite"):
                rm(os.path.join(os.path.dirname(bdest), f))
    # the crash machine on the observed step outcomes
    exprs = []
    for res in results:
        chunks = coq_list(["[2]"] * res["nchunks"])
        old = "(fun q => if path_eqb q [[100]; [102]] then Some [9] else None)" if res["old"] else "(fun _ => None)"
        exprs.append(f"enc_w (wrun {chunks} [[100]; [102]] (tmp_path [[100]] [49]) {old} "
                     f"{coq_list(res['outcomes'])}) [[100]; [102]]")
    model = vlib.coq_eval("c19w", IMPORTS, exprs, PRELUDE)
    ok = True
    for res in results:                 # the property's own statement first: a concrete failing input
        if res["state"] not in ("absent", "old", "complete"):
            chk.violation("counterexample", "oracle:atomic",
                          dict(input=dict(fault=res["inject"], preexisting_destination=res["old"]),
                               clause=f"after the injected failure the destination is not all-or-nothing: {res['state']}",
                               impl=dict(rc=res["rc"], reported=res["reported"], steps=res["steps"])))
            ok = False
            break
        if res["reported"] and res["reported"].get("ok") is False and res["state"] == "complete" \
                and res["steps"]["rename"] is not True:
            chk.violation("counterexample", "oracle:atomic",
                          dict(input=dict(fault=res["inject"]), clause="complete archive without a successful rename",
                               impl=res))
            ok = False
            break
    for res, (committed, _) in zip(results, model):
        if ok and bool(committed) != (res["state"] == "complete"):
            chk.violation("broken-obligation", "corr:atomic-write",
                          dict(input=dict(fault=res["inject"], preexisting_destination=res["old"]),
                               impl=dict(state=res["state"], steps=res["steps"]),
                               model=dict(committed=committed, outcomes=res["outcomes"]),
                               note="the all-or-nothing oracle accepted every fault-injection run"), no_input=True)
            ok = False
            break
    for k in kills:
        if ok and k["state"] not in ("absent", "old", "complete"):
            chk.violation("counterexample", "oracle:atomic",
                          dict(input=dict(sigkill_after_s=k["kill_after_s"], run_takes_s=k["of_s"],
                                          preexisting_destination=k["old"]),
                               clause=f"after SIGKILL the destination is not all-or-nothing: {k['state']}"))
            ok = False
    if ok and nextest and n_cli_kill:
        ok = cli_kills(chk, r, binary, nextest, n_cli_kill)
    if results:
        chk.sample(dict(fault_injection=dict(fault=results[0]["inject"], destination_after=results[0]["state"],
                                             steps=results[0]["outcomes"])))
    if kills:
        chk.sample(dict(sigkill=kills[0]))
    rm(d)
    rm(os.path.join(WORK, "crash-x"))
    rm(os.path.join(WORK, "crash-big"))
    return ok


# ----------------------------------------------------------------------------- the CLI, end to end

def cli_env(scen_path, logp=None):
    import e2e
    env = dict(os.environ)
    for k in list(env):
        if k.startswith("NEXTEST") or k.startswith("CARGO_"):
            env.pop(k)
    env.pop("RUSTFLAGS", None)
    env.update({"PUPPET_SCENARIO": scen_path, "PUPPET_PY": os.path.join(e2e.E2E, "puppet.py"),
                "CARGO_TERM_COLOR": "never", "NO_COLOR": "1", "NEXTEST_HIDE_PROGRESS_BAR": "1",
                "CARGO_NET_OFFLINE": "true"})
    if logp:
        env["PUPPET_LOG"] = logp
    return env


def find_std(libdir):
    with os.scandir(libdir) as it:
        for e in it:
            if e.name.startswith("libstd-") and (e.name.endswith(".so") or e.name.endswith(".dylib")):
                return e.name
    return None


def listing_obs(js, strip):
    """what `list --message-format json` says, with binary paths made relative to `strip`"""
    d = json.loads(js)
    out = {}
    for bid, suite in d["rust-suites"].items():
        bp = suite["binary-path"]
        out[bid] = dict(rel=os.path.relpath(bp, strip) if bp.startswith(strip + "/") else bp,
                        tests={n: bool(t.get("ignored")) for n, t in suite["testcases"].items()},
                        cwd=suite.get("cwd"))
    return out, d["rust-build-meta"]["target-directory"]


def section_cli(chk, r, binary, rig, n, distinct):
    import e2e
    manifest = os.path.join(e2e.PUPPET, "Cargo.toml")
    summary = json.load(open(os.path.join(rig.meta, "binaries-metadata.json")))
    tgt = summary["rust-build-meta"]["target-directory"]
    libdir = summary["rust-build-meta"]["platforms"]["host"]["libdir"]
    stdlibs = []
    if libdir.get("status") == "available":
        nm = find_std(libdir["path"])
        if nm:
            stdlibs = [("nextest/libdirs/host/" + nm, os.path.join(libdir["path"], nm))]
    ok = True
    for ci in range(n):
        d = fresh_dir(f"cli-{ci}")
        xname = f"c19x-{os.getpid()}-{ci}"
        xroot = os.path.join(tgt, xname)
        rm(xroot)
        os.makedirs(xroot)
        try:
            seed = r.randrange(2 ** 32)
            rr = random.Random(seed)
            open(os.path.join(tgt, xname, "linked-file"), "wb").write(b"LINKED")
            budget = [rr.randint(8, 30), 0]
            for top in ("p", "q"):
                os.mkdir(os.path.join(xroot, top))
                gen_tree_on_disk(rr, os.path.join(xroot, top), rr.randint(2, 5), budget, xroot)
            includes = []
            for _ in range(rr.randint(1, 4)):
                base = rr.choice([xname + "/p", xname + "/q", xname, xname + "/missing", xname + "/linked-file"])
                includes.append(dict(path=rr.choice([base, "./" + base, base + "/"]),
                                     depth=rr.choice([None, 0, 1, 2, 3, 4, "infinite"]),
                                     on_missing=rr.choice([None, "warn", "ignore"])))
            if ci % 2 == 0:
                # overlapping includes, the shallower one first
                includes = [dict(path=xname, depth=1, on_missing=None),
                            dict(path=xname + "/p", depth="infinite", on_missing=None)] + includes
            case = dict(target_dir=tgt, summary=summary, includes=includes)
            tests = {}
            for bid in summary["rust-binaries"]:
                tests[bid] = {"tests": {f"t{k}_{rr.randrange(100)}": ({"ignored": True} if rr.random() < 0.2 else {})
                                        for k in range(rr.randint(0, 3))}}
            scen = os.path.join(d, "scenario.json")
            json.dump({"bins": tests}, open(scen, "w"))
            cfg = os.path.join(d, "nextest.toml")
            open(cfg, "w").write(include_toml(includes))
            arch = os.path.join(d, "puppet.tar.zst")
            logp = os.path.join(d, "puppet.log")
            env = cli_env(scen, logp)
            pa = subprocess.run([rig.nextest, "nextest", "archive", "--manifest-path", manifest, "--archive-file",
                                 arch, "--config-file", cfg, "--zstd-level", "1"], cwd=e2e.PUPPET, env=env,
                                capture_output=True, text=True, timeout=600)
            desc = dict(includes=includes, gen_seed=seed, extra_tree=tree_desc(xroot)[:80], tests=tests)
            chk.count("cli_roundtrip_cases")
            if pa.returncode != 0:
                chk.violation("counterexample", "oracle:cli-roundtrip",
                              dict(input=desc, clause="cargo nextest archive failed on a valid configuration",
                                   impl=dict(rc=pa.returncode, stderr=pa.stderr[-1500:])))
                return False
            dest = os.path.join(d, "x")
            os.mkdir(dest)
            # every other case names the extraction directory by a RELATIVE path (from another working
            # directory): everything nextest reports afterwards is still remapped into the real directory
            rel_dest = ci % 2 == 1
            # every third case also remaps the workspace root to a copy of the sources elsewhere
            ws_copy = None
            if ci % 3 == 2:
                ws_copy = os.path.join(d, "ws-copy")
                shutil.copytree(e2e.PUPPET, ws_copy, ignore=shutil.ignore_patterns("target", ".git"))
            pl = subprocess.run([rig.nextest, "nextest", "list", "--archive-file", arch, "--extract-to",
                                 "x" if rel_dest else dest, "--message-format", "json", "--config-file", cfg] +
                                (["--workspace-remap", ws_copy] if ws_copy else []),
                                cwd=d if rel_dest else e2e.PUPPET, env=env,
                                capture_output=True, text=True, timeout=300)
            if ws_copy:
                chk.count("cli_roundtrip_workspace_remap")
            chk.count("cli_roundtrip_relative_extract_to" if rel_dest else "cli_roundtrip_absolute_extract_to")
            pd = subprocess.run([rig.nextest, "nextest", "list", "--manifest-path", manifest, "--message-format",
                                 "json", "--config-file", cfg], cwd=e2e.PUPPET, env=env, capture_output=True,
                                text=True, timeout=600)
            why = None
            if pl.returncode != 0 or pd.returncode != 0:
                why = f"listing failed: from archive rc={pl.returncode}, direct rc={pd.returncode}: {pl.stderr[-600:]}"
            else:
                la, ta = listing_obs(pl.stdout, os.path.join(os.path.realpath(dest), "target"))
                ld, td = listing_obs(pd.stdout, tgt)
                if ws_copy:
                    # with --workspace-remap every test's working directory moves with the workspace root
                    src, dst = os.path.realpath(e2e.PUPPET), os.path.realpath(ws_copy)
                    for v in ld.values():
                        if v.get("cwd") and (v["cwd"] == src or v["cwd"].startswith(src + "/")):
                            v["cwd"] = dst + v["cwd"][len(src):]
                if ta != os.path.join(os.path.realpath(dest), "target"):
                    why = f"target directory after extraction is {ta}"
                elif la != ld:
                    why = f"listing from the archive differs from the direct listing: {la} vs {ld}"
                else:
                    # the remapped library directories (dynamic libstd of proc-macro / prefer-dynamic tests is
                    # loaded from there) are absolute paths inside the extraction directory
                    plats = json.loads(pl.stdout)["rust-build-meta"].get("platforms", {})
                    for side in ("host",):
                        ldir = (plats.get(side) or {}).get("libdir") or {}
                        if ldir.get("status") == "available":
                            want = os.path.join(os.path.realpath(dest), "target", "nextest", "libdirs", side)
                            chk.count("cli_roundtrip_libdir_checked")
                            if ldir.get("path") != want:
                                why = (f"{side} libdir after extraction is {ldir.get('path')!r}, expected the extracted copy "
                                       f"{want!r} (--extract-to given as {'a relative' if rel_dest else 'an absolute'} path)")
            lt = harness(binary, [dict(op="list_tar", archive=arch)])[0]
            im, dups = tar_entries_to_map(lt.get("entries", []))
            exp_err, exp = oracle_expected_files(case, stdlibs)
            got = tree_listing(os.path.join(dest, "target"))
            if not why and dups:
                why = f"paths written twice into the archive: {dups[:3]}"
            if not why:
                for p, want in exp.items():
                    if want is None:
                        continue
                    g = got.get(p[len("target/"):])
                    if want == "dir":
                        if g != ("d",):
                            why = f"{p}: expected a directory after extraction, found {g}"
                    elif g is None or g[0] != "f" or g[1] != want:
                        why = f"{p}: not reproduced byte for byte"
                    if why:
                        break
            if not why:
                allowed = set(x[len("target/"):] for x in exp)
                for rel, g in got.items():
                    if g[0] == "d" and (rel in allowed or any(a.startswith(rel + "/") for a in allowed)):
                        continue
                    if rel not in allowed:
                        why = f"target/{rel} was archived but lies outside every configured path/depth"
                        break
            if why:
                chk.violation("counterexample", "oracle:cli-roundtrip",
                              dict(input=desc, clause=why, impl=dict(archive_stderr=pa.stderr[-800:],
                                                                     entries=sorted(im)[:80])))
                return False
            meta_bin = bytes.fromhex(lt["entries"][0]["data"])
            meta_cargo = bytes.fromhex(lt["entries"][1]["data"])
            mm = model_entries_to_map(vlib.coq_eval("c19c", IMPORTS, [coq_build(case, meta_bin, meta_cargo, stdlibs)],
                                                    PRELUDE)[0])
            if mm != im:
                only_i = sorted(set(im) - set(mm or {}))[:4]
                only_m = sorted(set(mm or {}) - set(im))[:4]
                chk.violation("broken-obligation", "corr:cli-archive",
                              dict(input=desc, impl=sorted(im)[:80], model=None if mm is None else sorted(mm)[:80],
                                   note=f"only in archive {only_i}, only in model {only_m}; the round-trip oracle "
                                        "accepted this run"), no_input=True)
                return False
            # run from the archive: every listed, non-ignored test runs from the extracted binary
            dest2 = os.path.join(d, "y")
            os.mkdir(dest2)
            pr = subprocess.run([rig.nextest, "nextest", "run", "--archive-file", arch, "--extract-to", dest2,
                                 "--config-file", cfg, "--no-tests=pass"], cwd=e2e.PUPPET, env=env, capture_output=True,
                                text=True, timeout=300)
            ran = sorted((x["bin"], x["test"]) for x in e2e.read_jsonl(logp) if x.get("ev") == "start")
            want = sorted((bid, t) for bid, b in tests.items() for t, v in b["tests"].items() if not v.get("ignored"))
            if pr.returncode != 0 or ran != want:
                chk.violation("counterexample", "oracle:cli-roundtrip",
                              dict(input=desc, clause=f"run from the archive: exit {pr.returncode}, ran {ran}, "
                                                      f"selected by a direct run {want}",
                                   impl=dict(stderr=pr.stderr[-1200:])))
                return False
            # ... and is told where the package's non-test binaries are: inside the extraction directory (the
            # paths recorded at build time are remapped), at a file that exists
            root2 = os.path.realpath(dest2)
            for x in e2e.read_jsonl(logp):
                if x.get("ev") != "start" or not x["bin"].startswith("beta::"):
                    continue
                exe = (x.get("env") or {}).get("NEXTEST_BIN_EXE_helper")
                chk.count("cli_roundtrip_bin_exe_checked")
                if exe is None or not os.path.realpath(exe).startswith(root2 + os.sep) or not os.path.isfile(exe):
                    chk.violation("counterexample", "oracle:cli-roundtrip",
                                  dict(input=desc, clause=f"test {x['bin']} {x['test']} run from the archive extracted to "
                                                          f"{root2} has NEXTEST_BIN_EXE_helper = {exe!r}: not a file "
                                                          f"inside the extraction directory"))
                    return False
            distinct.add(sha(json.dumps([includes, sorted(im)], sort_keys=True).encode()))
            if ci == 0:
                chk.sample(dict(cli_roundtrip=dict(includes=includes, archive_entries=len(im), tests_run=len(ran))))
        finally:
            rm(xroot)
            rm(d)
    return ok


def cli_kills(chk, r, binary, nextest, n):
    """SIGKILL `cargo nextest archive` (whole process group) at random instants"""
    import e2e
    manifest = os.path.join(e2e.PUPPET, "Cargo.toml")
    tgt = os.path.join(e2e.PUPPET, "target")
    d = fresh_dir("cli-kill")
    xname = f"c19k-{os.getpid()}"
    xroot = os.path.join(tgt, xname)
    rm(xroot)
    os.makedirs(xroot)
    ok = True
    try:
        open(os.path.join(xroot, "blob"), "wb").write(r.randbytes(4_000_000))
        cfg = os.path.join(d, "nextest.toml")
        open(cfg, "w").write(include_toml([dict(path=xname, depth=1, on_missing="error")]))
        scen = os.path.join(d, "scenario.json")
        json.dump({"bins": {}}, open(scen, "w"))
        env = cli_env(scen)
        arch = os.path.join(d, "k.tar.zst")
        cmd = [nextest, "nextest", "archive", "--manifest-path", manifest, "--archive-file", arch, "--config-file",
               cfg, "--zstd-level", "6"]
        t0 = time.monotonic()
        p = subprocess.run(cmd, cwd=e2e.PUPPET, env=env, capture_output=True, timeout=600)
        T = time.monotonic() - t0
        if p.returncode != 0:
            chk.violation("broken-obligation", "crash:cli-reference", dict(stderr=p.stderr.decode()[-800:]), no_input=True)
            return False
        ref, _ = tar_entries_to_map(harness(binary, [dict(op="list_tar", archive=arch)])[0]["entries"])
        for ki in range(n):
            old = OLD if ki % 2 == 0 else None
            rm(arch)
            if old is not None:
                open(arch, "wb").write(old)
            delay = r.uniform(0.3, 1.02) * T
            q = subprocess.Popen(cmd, cwd=e2e.PUPPET, env=env, stdout=subprocess.DEVNULL, stderr=subprocess.DEVNULL,
                                 start_new_session=True)
            time.sleep(delay)
            try:
                os.killpg(q.pid, signal.SIGKILL)
            except ProcessLookupError:
                pass
            q.wait()
            state = dest_state(arch, old, ref, binary)
            chk.count("crash_cli_kill_cases")
            chk.count("crash_state_" + (state if state in ("absent", "old", "complete") else "BROKEN"))
            for f in os.listdir(d):
                if f.startswith(".atomicwrite"):
                    rm(os.path.join(d, f))
            if state not in ("absent", "old", "complete"):
                chk.violation("counterexample", "oracle:atomic",
                              dict(input=dict(command="cargo nextest archive", sigkill_after_s=round(delay, 3),
                                              run_takes_s=round(T, 3), preexisting_destination=old is not None),
                                   clause=f"after SIGKILL the destination is not all-or-nothing: {state}"))
                ok = False
                break
    finally:
        rm(xroot)
        rm(d)
    return ok


# ----------------------------------------------------------------------------- driver

def corpus():
    p = os.path.join(vlib.VERIF, "corpus", "C19.json")
    return json.load(open(p)) if os.path.exists(p) else {"hostile": [], "archive": []}


ASSUMPTIONS = [
    "tar and zstd byte formats are abstracted: an archive is a list of (path bytes, checksum-ok, kind, data)",
    "tar's unpack_in is modelled from its source (lexical destination, realpath of the parent inside dst, "
    "no following of a link at the final name); its permission/mtime handling is not modelled",
    "atomicwrites / rename(2): a successful rename replaces the destination atomically; only process "
    "crashes (SIGKILL) and failing system calls are exercised, not power loss",
    "file contents are opaque to the model (long contents are represented by a digest)",
    "the destination directory path given to the extraction machine is canonical (Unarchiver::extract "
    "canonicalises it); what the destination contains is arbitrary (files, directories, links anywhere)",
    "changes of permissions by directory entries are not modelled (they are observed by the snapshot oracle)",
]

TRUSTED = ["Coq 8.16.1 kernel + vm_compute",
           "hand-written model Model/Archive.v tied by corr:archive, corr:cli-archive, corr:extract, "
           "corr:path-checks, corr:include-parse, corr:path-mapper, corr:atomic-write",
           "Python generators / oracles in props/C19.py (tar writer, stored-block zstd writer)",
           "harness/src/archive.rs (public API of nextest-runner; tar + zstd crates for list_tar)",
           "strace fault injection, lib/e2e.py rig and the puppet workspace"]


def run(tier, seed):
    import e2e
    chk = vlib.Check(PROP, tier, seed)
    gate = vlib.coq_gate(PROP)
    vlib.gate_or_violation(chk, gate)
    binary, err = vlib.build_harness()
    if binary is None:
        chk.violation("broken-obligation", "harness-build", dict(error=err), no_input=True)
        return chk.finish(gate, "make -C coq Properties/C19.vo", [])
    try:
        rig = e2e.Rig()
    except RuntimeError as e:
        chk.violation("broken-obligation", "e2e-build", dict(error=str(e)[-3000:]), no_input=True)
        return chk.finish(gate, "make -C coq Properties/C19.vo", [])
    shutil.rmtree(WORK, ignore_errors=True)
    os.makedirs(WORK)
    r = vlib.rng_for(seed, PROP)
    th = tier == "thorough"
    distinct = set()
    flav = probe_flavour(binary)
    chk.count("tree_has_F19_repair", int(flav["f19"]))
    chk.count("tree_has_F23_repair", int(flav["f23"]))
    cp = corpus()
    t = time.time()
    timing = {}

    def timed(name, f):
        nonlocal t
        res = f()
        timing[name] = round(time.time() - t, 1)
        t = time.time()
        vlib.log(f"[C19] {name}: {'ok' if res else 'VIOLATION'} in {timing[name]} s")
        return res

    timed("path-checks", lambda: section_components(chk, r, binary, 4000 if th else 200))
    timed("include-parse", lambda: section_include(chk, r, binary, 300 if th else 60))
    timed("path-mapper", lambda: section_mapper(chk, r, binary, 200 if th else 40))
    forced = [(c["gen_seed"], c.get("broken_links", False), c.get("includes")) for c in cp.get("archive", [])]
    timed("archive", lambda: section_archive(chk, r, binary, (1000 if th else 90) + len(forced), distinct, forced,
                                             flav))
    timed("hostile", lambda: section_hostile(chk, r, binary, (2000 if th else 160) + len(cp.get("hostile", [])), flav,
                                             rig.nextest, 40 if th else 5, cp.get("hostile", [])))
    timed("crash", lambda: section_crash(chk, r, binary, 500 if th else 40, 100 if th else 10, rig.nextest,
                                         30 if th else 4))
    timed("cli-roundtrip", lambda: section_cli(chk, r, binary, rig, 20 if th else 3, distinct))
    shutil.rmtree(WORK, ignore_errors=True)
    chk.assumptions = ASSUMPTIONS
    evals = sum(v for k, v in chk.counts.items() if k.endswith("_cases"))
    return chk.finish(
        gate, "make -C coq Properties/C19.vo && coqc gen/assump_C19.v (Print Assumptions)", TRUSTED,
        dict(evaluations=evals, distinct_nontrivial=len(distinct),
             rule="archive round trips: a case = (generated target-directory tree with files, empty directories, "
                  "fifos, links to files/directories/nothing; binaries, out dirs, linked paths; archive.include "
                  "list with paths, depths 0-4/default/infinite, on-missing policies); non-trivial = at least one "
                  "include and at least five archive entries; distinct by (entry paths, include list). Hostile "
                  "archives, fault injections, kills, path strings, include strings and mapper cases are counted "
                  "in evaluations only",
             traces_validated_against_impl=chk.counts.get("archive_cases", 0) + chk.counts.get("hostile_cases", 0)
             + chk.counts.get("crash_inject_cases", 0) + chk.counts.get("cli_roundtrip_cases", 0),
             timing_s=timing, level_note="partial: tar/zstd formats, unpack_in's permission handling, "
                                         "atomicwrites and rename(2) atomicity are trusted/abstracted"))


def replay(path, seed):
    import e2e
    d = json.load(open(path))
    print(json.dumps(d, indent=1)[:4000])
    binary, err = vlib.build_harness()
    chk = vlib.Check(PROP, d.get("tier", "quick"), d.get("seed", seed))
    os.makedirs(WORK, exist_ok=True)
    name, inp = d.get("name", ""), d.get("input") or {}
    r = vlib.rng_for(d.get("seed", seed), PROP + ":replay")
    ok = True
    if name in ("oracle:roundtrip", "corr:archive") and "gen_seed" in inp:
        ok = section_archive(chk, r, binary, 1, set(), [(inp["gen_seed"], inp.get("broken_links", False), inp["includes"])])
    elif name in ("oracle:confined", "corr:extract") and "archive_hex" in inp and not inp["archive_hex"].endswith("..."):
        ok = section_hostile(chk, r, binary, 1, probe_flavour(binary), None, 0,
                             [dict(kind=inp.get("kind"), blob_hex=inp["archive_hex"],
                                   preseed=[(op, rel, bytes.fromhex(arg) if op == "file" else arg)
                                            for op, rel, arg in inp.get("preseed", [])],
                                   overwrite=inp.get("overwrite", False),
                                   has_link=any(e["kind"] in ("symlink", "hardlink") for e in (inp.get("entries") or [])))],
                             sandbox_names=[inp.get("sandbox", "host-0")])
    elif name == "corr:path-checks":
        ok = section_components(chk, r, binary, 14) and not py_path_ok(bytes.fromhex(inp)) is None
        i = harness(binary, [dict(op="components", hex=inp)])[0]
        print("implementation now:", i, "documented rule accepts:", py_path_ok(bytes.fromhex(inp)))
    elif name == "oracle:atomic" or name.startswith("corr:atomic") or name.startswith("crash"):
        rig = e2e.Rig()
        ok = section_crash(chk, vlib.rng_for(d.get("seed", seed), PROP), binary, 26, 6, rig.nextest, 3)
    elif name in ("oracle:cli-roundtrip", "corr:cli-archive"):
        rig = e2e.Rig()
        ok = section_cli(chk, random.Random(inp.get("gen_seed", 0)), binary, rig, 2, set())
    elif name == "corr:include-parse":
        ok = section_include(chk, r, binary, 60)
    elif name == "corr:path-mapper":
        ok = section_mapper(chk, r, binary, 40)
    shutil.rmtree(WORK, ignore_errors=True)
    print("replay:", "property holds on this input now" if ok and not chk.violations else "still failing")
    return 1 if chk.violations or not ok else 0
