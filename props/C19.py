"""C19 — archives: theorems (Properties/C19.v) + correspondence of the archive model with nextest
(archive_to_file / extract_archive / config parsing / PathMapper through the public API, the CLI
end to end on the puppet workspace) + crash/fault injection on archive creation + hostile archives,
with an independent Python oracle on what the implementation did."""
import hashlib, json, os, random, shutil, signal, stat, subprocess, sys, time
import vlib
from vlib import coq_str, coq_list

PROP = "C19"
IMPORTS = ["Base.Str", "Model.Archive", "Proofs.Archive"]
WORK = os.path.join(vlib.CACHE, "c19-work")
PKG_A = "crate_a 0.1.0 (path+file:///home/fakeuser/tests-workspace/crate-a)"
PKG_B = "crate_b 0.1.0 (path+file:///home/fakeuser/tests-workspace/crate-b)"
FIXTURE_WS = "/home/fakeuser/tests-workspace"
BIN_META = "target/nextest/binaries-metadata.json"
CARGO_META = "target/nextest/cargo-metadata.json"

PRELUDE = """
Definition enc_content (c : content) : N * list N :=
  match c with CFile b => (0, b) | CDir => (1, []) | CSpecial => (2, []) end.
Definition enc_archive (r : option (list entry)) : N * list (list (list N) * (N * list N)) :=
  match r with
  | None => (0, [])
  | Some es => (1, map (fun e : entry => (fst e, enc_content (snd e))) es)
  end.
Definition enc_comp (c : comp) : N * list N :=
  match c with CRoot => (0, []) | CCur => (1, []) | CParent => (2, []) | CNormal n => (3, n) end.
Definition b2n (b : bool) : N := if b then 1 else 0.
Definition enc_path_checks (raw : bytes) : N * (list (N * list N) * (N * N)) :=
  match utf8_decode raw with
  | None => (0, ([], (0, 0)))
  | Some s => (1, (map enc_comp (components s), (b2n (path_ok_target s), b2n (path_ok s))))
  end.
Definition enc_include (s : str) : N * list (list N) := (b2n (valid_include s), include_rel s).
Definition enc_node (n : node) : N * list N :=
  match n with NFile b => (0, b) | NDir => (1, []) | NLink _ => (2, []) end.
Definition enc_x (x : xresult) : N * (N * list (list (list N) * (N * list N))) :=
  let f := fun d : fsys => map (fun e : rpath * node => (fst e, enc_node (snd e))) d in
  match x with
  | XOk d => (0, (0, f d))
  | XRejected c d => (1, (c, f d))
  | XIoError d => (2, (0, f d))
  end.
Definition enc_w (s : wstate * files) (dest : rpath) : N * N :=
  (b2n (committed (fst s)), match snd s dest with None => 0 | Some [] => 1 | Some (x :: _) => x end).
"""


# ----------------------------------------------------------------------------- small helpers

def sha(b):
    return hashlib.sha256(b).hexdigest()[:16]


def token(b):
    """what stands for a file's content in the model: the bytes themselves when short, else 8 bytes
    of their SHA-256 (the model treats contents as opaque)"""
    return list(b) if len(b) <= 8 else list(hashlib.sha256(b).digest()[:8])


def cq_bytes(b):
    return "[" + "; ".join(str(x) for x in b) + "]"


def cq_path(comps):
    return coq_list([coq_str(c) for c in comps])


def cq_opt(x, f):
    return "None" if x is None else f"(Some {f(x)})"


def cq_depth(d):
    return "Infinite" if d == "infinite" else f"(Finite {d})"


def cq_tree(t):
    k = t[0]
    if k == "F":
        return f"(File {cq_bytes(t[1])})"
    if k == "L":
        if t[1] == "file":
            return f"(Symlink (LFile {cq_bytes(t[2])}))"
        return "(Symlink LDir)" if t[1] == "dir" else "(Symlink LBroken)"
    if k == "D":
        return "(Dir " + coq_list([f"({coq_str(n)}, {cq_tree(c)})" for n, c in t[1]]) + ")"
    return "Other"


def scan(path):
    """the model's view of what is at `path` (None = nothing there); directory entries in
    os.scandir order (the same getdents order read_dir sees)"""
    try:
        st = os.lstat(path)
    except OSError:
        return None
    if stat.S_ISLNK(st.st_mode):
        try:
            tst = os.stat(path)
        except OSError:
            return ("L", "broken")
        if stat.S_ISDIR(tst.st_mode):
            return ("L", "dir")
        if stat.S_ISREG(tst.st_mode):
            return ("L", "file", token(open(path, "rb").read()))
        return ("L", "broken")     # a link to a special file is not generated
    if stat.S_ISREG(st.st_mode):
        return ("F", token(open(path, "rb").read()))
    if stat.S_ISDIR(st.st_mode):
        with os.scandir(path) as it:
            names = [e.name for e in it]
        return ("D", [(n, scan(os.path.join(path, n))) for n in names])
    return ("O",)


def norm_rel(p):
    """join_rel_path: drop empty and `.` components"""
    return [c for c in p.split("/") if c not in ("", ".")]


def fs_snapshot(root, skip=()):
    """everything below root (not following links): type, mode, size, mtime, inode, content digest /
    link target; `skip` = absolute paths whose subtree is left out"""
    out = {}
    for dirpath, dirs, files in os.walk(root, followlinks=False):
        dirs[:] = [d for d in dirs if os.path.join(dirpath, d) not in skip]
        for n in dirs + files:
            p = os.path.join(dirpath, n)
            if p in skip:
                continue
            st = os.lstat(p)
            kind = stat.S_IFMT(st.st_mode)
            extra = None
            if stat.S_ISLNK(st.st_mode):
                extra = os.readlink(p)
            elif stat.S_ISREG(st.st_mode):
                extra = sha(open(p, "rb").read())
            out[os.path.relpath(p, root)] = (kind, stat.S_IMODE(st.st_mode), st.st_size if not stat.S_ISDIR(st.st_mode) else 0,
                                             st.st_mtime_ns if not stat.S_ISDIR(st.st_mode) else 0, st.st_ino, st.st_nlink if not stat.S_ISDIR(st.st_mode) else 0, extra)
    return out


def tree_listing(root):
    """{relative path: ('f', bytes) | ('d',) | ('l', target) | ('o',)} below root"""
    out = {}
    if not os.path.lexists(root):
        return out
    for dirpath, dirs, files in os.walk(root, followlinks=False):
        for n in dirs + files:
            p = os.path.join(dirpath, n)
            st = os.lstat(p)
            rel = os.path.relpath(p, root)
            if stat.S_ISLNK(st.st_mode):
                out[rel] = ("l", os.readlink(p))
            elif stat.S_ISDIR(st.st_mode):
                out[rel] = ("d",)
            elif stat.S_ISREG(st.st_mode):
                out[rel] = ("f", open(p, "rb").read())
            else:
                out[rel] = ("o",)
    return out


def fresh_dir(name):
    d = os.path.join(WORK, name)
    shutil.rmtree(d, ignore_errors=True)
    os.makedirs(d)
    return d


def rm(path):
    if os.path.isdir(path) and not os.path.islink(path):
        # make everything removable again (hostile archives may leave odd modes)
        for dp, dn, fn in os.walk(path):
            try:
                os.chmod(dp, 0o700)
            except OSError:
                pass
        shutil.rmtree(path, ignore_errors=True)
    elif os.path.lexists(path):
        os.remove(path)


def harness(binary, cases, timeout=600):
    return vlib.run_impl(binary, "archive", cases, timeout=timeout, shards=1)


# ----------------------------------------------------------------------------- tar / zstd writers

def zstd_store(data):
    """a Zstandard frame made of raw (stored) blocks only: no library needed"""
    out = bytearray(b"\x28\xb5\x2f\xfd")
    out += bytes([0x00, 0x50])       # no content size, no checksum, window 1 MiB
    if not data:
        out += (1).to_bytes(3, "little")
        return bytes(out)
    i, n = 0, len(data)
    while i < n:
        chunk = data[i:i + 65536]
        i += len(chunk)
        out += ((1 if i >= n else 0) | (len(chunk) << 3)).to_bytes(3, "little")
        out += chunk
    return bytes(out)


def tar_header(name, typ=b"0", size=0, link=b"", mode=0o644, cksum_delta=0, major=None):
    h = bytearray(512)
    h[0:min(len(name), 100)] = name[:100]
    h[100:108] = b"%07o\0" % mode
    h[108:116] = b"%07o\0" % 0
    h[116:124] = b"%07o\0" % 0
    h[124:136] = b"%011o\0" % size if size < 8 ** 11 else (b"\x80" + size.to_bytes(11, "big"))
    h[136:148] = b"%011o\0" % 1700000000
    h[148:156] = b"        "
    h[156:157] = typ
    h[157:157 + min(len(link), 100)] = link[:100]
    h[257:263] = b"ustar\0"
    h[263:265] = b"00"
    if major is not None:
        h[329:337] = b"%07o\0" % major
        h[337:345] = b"%07o\0" % 3
    c = sum(h) + cksum_delta
    h[148:156] = b"%06o\0 " % c
    return bytes(h)


def tar_entry(name, data=b"", declared_size=None, **kw):
    size = len(data) if declared_size is None else declared_size
    return tar_header(name, size=size, **kw) + data + b"\0" * ((-len(data)) % 512)


def gnu_longname(name):
    data = name + b"\0"
    return tar_entry(b"././@LongLink", data, typ=b"L")


def pax_path(name):
    rec = b" path=" + name + b"\n"
    n = len(rec) + 1
    while len(str(n)) + len(rec) != n:
        n = len(str(n)) + len(rec)
    return tar_entry(b"PaxHeaders/x", str(n).encode() + rec, typ=b"x")


TAR_END = b"\0" * 1024


# ----------------------------------------------------------------------------- synthetic builds

NAMES = ["a", "b", "c", "d1", "é", "x y", "lib.so", "deps", "out", "z-9"]


def gen_tree_on_disk(r, root, depth, budget, siblings_root):
    """create a random tree below `root` (a directory that exists); returns nothing. Contains
    regular files, empty directories, fifos, links to files / directories / nothing."""
    names = r.sample(NAMES, r.randint(0, min(5, len(NAMES))))
    for n in names:
        if budget[0] <= 0:
            return
        budget[0] -= 1
        p = os.path.join(root, n)
        k = r.choices(["file", "dir", "lfile", "ldir", "lbroken", "fifo"],
                      [10, 7 if depth > 0 else 0, 2, 2, budget[1], 1])[0]
        if k == "file":
            open(p, "wb").write(bytes(r.randrange(256) for _ in range(r.choice([0, 1, 3, 6, 40]))))
        elif k == "dir":
            os.mkdir(p)
            gen_tree_on_disk(r, p, depth - 1, budget, siblings_root)
        elif k == "lfile":
            tgt = os.path.join(siblings_root, "linked-file")
            os.symlink(tgt if r.random() < 0.5 else os.path.relpath(tgt, root), p)
        elif k == "ldir":
            os.symlink(siblings_root, p)
        elif k == "lbroken":
            os.symlink("does-not-exist", p)
        else:
            os.mkfifo(p)


def gen_build(r, case_dir, broken_links=False):
    """a target directory on disk + a BinaryListSummary + an archive.include configuration.
    Returns the case description (JSON-able; the directory itself is what the implementation reads)."""
    tgt = os.path.join(case_dir, "tgt")
    os.makedirs(os.path.join(tgt, "debug", "deps"))
    open(os.path.join(tgt, "linked-file"), "wb").write(b"LINKED")
    bins = {}
    for i in range(r.randint(1, 3)):
        rel = f"debug/deps/t{i}-{r.randrange(16 ** 4):04x}"
        open(os.path.join(tgt, rel), "wb").write(bytes(r.randrange(256) for _ in range(r.choice([4, 20, 300]))))
        bid = f"crate_a::t{i}"
        bins[bid] = {"binary-id": bid, "binary-name": f"t{i}", "package-id": PKG_A, "kind": "test",
                     "binary-path": os.path.join(tgt, rel), "build-platform": "target"}
    non_test = {}
    if r.random() < 0.6:
        rel = "debug/helper"
        open(os.path.join(tgt, rel), "wb").write(b"HELPER" * r.randint(1, 5))
        non_test[PKG_A] = [{"name": "helper", "kind": "bin-exe", "path": rel}]
    out_dirs = {}
    budget = [r.randint(4, 22), 1 if broken_links else 0]
    for pkg, nm in ((PKG_A, "a-1f"), (PKG_B, "b-2e")):
        if r.random() < 0.5:
            base = f"debug/build/{nm}"
            os.makedirs(os.path.join(tgt, base, "out"))
            open(os.path.join(tgt, base, "output"), "wb").write(b"cargo:rustc-env=X=1\n")
            gen_tree_on_disk(r, os.path.join(tgt, base, "out"), 2, budget, tgt)
            out_dirs[pkg] = base + "/out"
    linked = []
    for nm in ("debug/build/l1/out/lib", "debug/native", "debug/gone"):
        if r.random() < 0.4:
            if nm != "debug/gone":
                os.makedirs(os.path.join(tgt, nm))
                gen_tree_on_disk(r, os.path.join(tgt, nm), 2, budget, tgt)
            linked.append(nm)
    # extra trees and includes
    tops = []
    for nm in ("xa", "xb", "xc"):
        if r.random() < 0.8:
            os.mkdir(os.path.join(tgt, nm))
            gen_tree_on_disk(r, os.path.join(tgt, nm), r.randint(1, 5), budget, tgt)
            tops.append(nm)
    if r.random() < 0.3:
        open(os.path.join(tgt, "xfile"), "wb").write(b"top-level file")
        tops.append("xfile")
    if r.random() < 0.25:
        os.symlink("xa" if r.random() < 0.5 else "nowhere", os.path.join(tgt, "xlink"))
        tops.append("xlink")
    if r.random() < 0.25:
        os.makedirs(os.path.join(tgt, "nextest"), exist_ok=True)
        open(os.path.join(tgt, "nextest", "cargo-metadata.json"), "wb").write(b"ON-DISK-IMPOSTOR")
        open(os.path.join(tgt, "nextest", "other.json"), "wb").write(b"{}")
        tops.append("nextest")
    includes = []
    for _ in range(r.choice([0, 1, 2, 3, 4])):
        base = r.choice(tops + ["missing", "debug/deps"]) if tops else "missing"
        path = base
        # sometimes a sub-path, sometimes a decorated spelling
        full = os.path.join(tgt, base)
        if os.path.isdir(full) and not os.path.islink(full) and r.random() < 0.4:
            subs = sorted(os.listdir(full))
            if subs:
                path = base + "/" + r.choice(subs)
        path = r.choice([path, path, "./" + path, path.replace("/", "/./", 1), path + "/"])
        inc = {"path": path, "depth": r.choice([None, 0, 1, 2, 3, 4, "infinite"]),
               "on_missing": r.choice([None, "ignore", "warn", "error"] if base == "missing"
                                      else [None, "ignore", "warn", "error", "error"])}
        includes.append(inc)
    summary = {
        "rust-build-meta": {
            "target-directory": tgt, "base-output-directories": ["debug"],
            "non-test-binaries": non_test, "build-script-out-dirs": out_dirs, "linked-paths": linked,
            "target-platforms": [], "target-platform": None,
            "platforms": {"host": {"platform": {"triple": "x86_64-unknown-linux-gnu",
                                                "target-features": "unknown"},
                                   "libdir": {"status": "unavailable", "reason": "c19"}},
                          "targets": []}},
        "rust-binaries": bins}
    return dict(target_dir=tgt, summary=summary, includes=includes)


def include_toml(includes):
    rows = []
    for i in includes:
        row = f'{{ path = {json.dumps(i["path"])}, relative-to = "target"'
        if i["depth"] is not None:
            row += f', depth = {json.dumps(i["depth"])}'
        if i["on_missing"] is not None:
            row += f', on-missing = "{i["on_missing"]}"'
        rows.append(row + " }")
    return "[profile.default.archive]\ninclude = [\n  " + ",\n  ".join(rows) + "\n]\n"


def coq_build(case, meta_bin, meta_cargo):
    """the model's `build` for a generated case, read back from the directory"""
    tgt = case["target_dir"]
    sm = case["summary"]["rust-build-meta"]

    def src(rel_comps):
        return cq_opt(scan(os.path.join(tgt, *rel_comps)) if rel_comps else scan(tgt), cq_tree)

    def pair(rel):
        comps = rel.split("/")
        return f"({cq_path(comps)}, {src(comps)})"

    bins = [pair(os.path.relpath(b["binary-path"], tgt))
            for _, b in sorted(case["summary"]["rust-binaries"].items())]
    nontest = [pair(b["path"]) for _, bs in sorted(sm["non-test-binaries"].items())
               for b in sorted(bs, key=lambda x: (x["name"], x["kind"], x["path"]))]
    outs = []
    for _, od in sorted(sm["build-script-out-dirs"].items()):
        comps = od.split("/")
        parent = comps[:-1]
        outf = f"(Some {pair('/'.join(parent + ['output']))})" if parent else "None"
        outs.append(f"({pair(od)}, {outf})")
    linked = [pair(l) for l in sorted(sm["linked-paths"])]
    incs = []
    for i in case["includes"]:
        comps = norm_rel(i["path"])
        d = 16 if i["depth"] is None else i["depth"]
        om = {"ignore": "OnIgnore", "warn": "OnWarn", "error": "OnError", None: "OnWarn"}[i["on_missing"]]
        incs.append(f"{{| inc_path := include_rel {coq_str(i['path'])}; inc_depth := {cq_depth(d)}; "
                    f"inc_missing := {om}; inc_src := {src(comps)} |}}")
    return (f"enc_archive (archive {{| b_meta_binaries := {cq_bytes(token(meta_bin))}; "
            f"b_meta_cargo := {cq_bytes(token(meta_cargo))}; b_test_bins := {coq_list(bins)}; "
            f"b_non_test_bins := {coq_list(nontest)}; b_out_dirs := {coq_list(outs)}; "
            f"b_linked := {coq_list(linked)}; b_includes := {coq_list(incs)}; b_stdlibs := [] |}})")


def oracle_expected_files(case):
    """Independent statement of the property: which regular-file contents must come out of the
    archive, computed with os.walk-style reasoning on the directory (not with the model).
    Returns (expect_error, {archive path: bytes | 'dir'})."""
    tgt = case["target_dir"]
    sm = case["summary"]["rust-build-meta"]
    # the two in-memory metadata files are written first and win over files of the same name
    out = {BIN_META: None, CARGO_META: None}
    err = [False]

    def take(rel):
        p = os.path.join(tgt, rel)
        if os.path.islink(p) and not os.path.exists(p):
            if "target/" + rel not in out:
                err[0] = True
            return
        key = "target/" + rel
        if key in out:
            return
        if os.path.isdir(p):
            out[key] = "dir"
        elif os.path.isfile(p):
            out[key] = open(p, "rb").read()
        elif os.path.lexists(p):
            out[key] = b""        # a special file handed to tar directly (not generated)
        else:
            err[0] = True

    def below(rel, depth):
        """files with at most `depth` enclosing directories counted from rel itself"""
        root = os.path.join(tgt, rel)
        if os.path.islink(root) or not os.path.isdir(root):
            if stat.S_ISREG(os.lstat(root).st_mode) or os.path.islink(root):
                take(rel)
            return
        base_parts = len(root.rstrip("/").split("/"))
        for dp, dn, fn in os.walk(root, followlinks=False):
            level = len(dp.rstrip("/").split("/")) - base_parts + 1   # directories enclosing dp's files
            if depth != "infinite" and level > depth:
                dn[:] = []
                continue
            for n in dn + fn:
                p = os.path.join(dp, n)
                st = os.lstat(p)
                if stat.S_ISREG(st.st_mode) or stat.S_ISLNK(st.st_mode):
                    take(os.path.relpath(p, tgt))

    for i in case["includes"]:
        p = os.path.join(tgt, *norm_rel(i["path"]))
        if not os.path.lexists(p) and i["on_missing"] == "error":
            return True, {}
    for _, b in sorted(case["summary"]["rust-binaries"].items()):
        take(os.path.relpath(b["binary-path"], tgt))
    for _, bs in sorted(sm["non-test-binaries"].items()):
        for b in bs:
            take(b["path"])
    for _, od in sorted(sm["build-script-out-dirs"].items()):
        below(od, 1)
        take(os.path.dirname(od) + "/output")
    for l in sorted(sm["linked-paths"]):
        if os.path.exists(os.path.join(tgt, l)):
            below(l, 1)
    for i in case["includes"]:
        rel = "/".join(norm_rel(i["path"]))
        p = os.path.join(tgt, rel)
        if not os.path.exists(p):       # missing, or a dangling link named directly
            continue
        d = 16 if i["depth"] is None else i["depth"]
        if os.path.isdir(p) and not os.path.islink(p) and d == 0:
            continue
        if stat.S_ISFIFO(os.lstat(p).st_mode):
            continue
        below(rel, d)
    return err[0], out


def tar_entries_to_map(entries):
    """list_tar output -> ({path: (kind, token)}, duplicates)"""
    out, dups = {}, []
    for e in entries:
        p = e["path"].rstrip("/")
        t = e["type"]
        if t in ("0", "\0", "7", "S"):
            v = (0, token(bytes.fromhex(e["data"])))
        elif t == "5":
            v = (1, [])
        else:
            v = (2, [])
        if p in out:
            dups.append(p)
        out[p] = v
    return out, dups


def model_entries_to_map(val):
    ok, es = val
    if not ok:
        return None
    return {"/".join(vlib.decode_str(c) for c in comps): (k, list(data)) for comps, (k, data) in es}


def section_archive(chk, r, binary, n_cases, distinct, corpus_cases=()):
    """corr:archive + oracle:roundtrip on synthetic builds through archive_to_file/extract_archive"""
    cargo_meta = open(os.path.join(vlib.REPO, "fixtures", "tests-workspace-metadata.json"), "rb").read()
    cases, hcases = [], []
    for ci in range(n_cases):
        d = fresh_dir(f"arch-{ci}")
        seed = r.randrange(2 ** 32)
        case = gen_build(random.Random(seed), d, broken_links=(ci % 5 == 4))
        case["gen_seed"] = seed
        case["dir"] = d
        os.mkdir(os.path.join(d, "dest"))
        cases.append(case)
        out = os.path.join(d, "out.tar.zst")
        hcases += [dict(op="archive", summary=case["summary"], config=include_toml(case["includes"]),
                        out=out, scratch=d, zstd_level=1),
                   dict(op="list_tar", archive=out),
                   dict(op="extract", archive=out, dest=os.path.join(d, "dest"))]
    res = harness(binary, hcases)
    exprs = []
    for ci, case in enumerate(cases):
        lt = res[3 * ci + 1]
        meta_bin = b""
        if "entries" in lt and lt["entries"] and lt["entries"][0]["path"] == BIN_META:
            meta_bin = bytes.fromhex(lt["entries"][0]["data"])
        case["meta_bin"] = meta_bin
        exprs.append(coq_build(case, meta_bin, cargo_meta))
    model = vlib.coq_eval("c19a", IMPORTS, exprs, PRELUDE)
    for ci, case in enumerate(cases):
        ar, lt, ex = res[3 * ci: 3 * ci + 3]
        mm = model_entries_to_map(model[ci])
        chk.count("archive_cases")
        chk.count(f"archive_includes={len(case['includes'])}")
        for i in case["includes"]:
            chk.count(f"include_depth={i['depth']}")
            chk.count(f"include_on_missing={i['on_missing']}")
        desc = dict(includes=case["includes"], gen_seed=case["gen_seed"],
                    summary_meta=case["summary"]["rust-build-meta"],
                    tree=tree_desc(case["target_dir"]))
        exp_err, exp = oracle_expected_files(case)
        problem = None
        if "config_error" in ar or "error" in ar:
            problem = ("machinery", f"case not evaluated: {str(ar)[:300]}")
        elif not ar["ok"]:
            chk.count("archive_failed_" + ar["err"])
            if mm is not None:
                problem = ("corr", f"archive creation failed ({ar['err']}) but the model produces an archive")
            if not exp_err and problem:
                problem = ("oracle", problem[1] + "; nothing in the build explains a failure")
            if os.path.lexists(os.path.join(case["dir"], "out.tar.zst")):
                problem = ("oracle", "archive creation returned an error yet the destination file exists")
        else:
            im, dups = tar_entries_to_map(lt.get("entries", []))
            paths = [e["path"] for e in lt.get("entries", [])]
            if dups:
                problem = ("oracle", f"paths written twice into the archive: {dups[:3]}")
            elif paths[:2] != [BIN_META, CARGO_META]:
                problem = ("oracle", f"metadata entries are not first: {paths[:3]}")
            elif bytes.fromhex(lt["entries"][1]["data"]) != cargo_meta:
                problem = ("oracle", "cargo-metadata.json in the archive is not the in-memory metadata")
            elif mm is None:
                problem = ("corr", "archive created but the model says archive creation fails")
            elif im != mm:
                only_i = sorted(set(im) - set(mm))[:4]
                only_m = sorted(set(mm) - set(im))[:4]
                diff = [p for p in im if p in mm and im[p] != mm[p]][:4]
                problem = ("corr", f"archive contents differ: only in archive {only_i}, only in model {only_m}, "
                                   f"different {diff}")
            # extraction: byte-for-byte, and nothing deeper
            if problem is None or problem[0] == "corr":
                got = tree_listing(os.path.join(case["dir"], "dest", "target"))
                why = None
                if not ex.get("ok"):
                    why = f"extraction of a freshly made archive failed: {str(ex)[:200]}"
                elif exp_err:
                    why = "archive created although a dangling link had to be archived"
                else:
                    for p, want in exp.items():
                        rel = p[len("target/"):]
                        g = got.get(rel)
                        if want is None:
                            continue
                        if want == "dir":
                            if g != ("d",):
                                why = f"{p}: expected a directory after extraction, found {g}"
                        elif g is None or g[0] != "f" or g[1] != want:
                            why = f"{p}: not reproduced byte for byte (found {None if g is None else g[0]})"
                        if why:
                            break
                    if not why:
                        allowed = set(x[len("target/"):] for x in exp) | {"nextest/binaries-metadata.json",
                                                                          "nextest/cargo-metadata.json"}
                        for rel, g in got.items():
                            if g[0] == "d" and (rel in allowed or any(a.startswith(rel + "/") for a in allowed)):
                                continue
                            if rel not in allowed:
                                why = f"target/{rel} was archived but lies outside every configured path/depth"
                                break
                    if not why and ex.get("target_dir_remap") != os.path.realpath(os.path.join(case["dir"], "dest", "target")):
                        why = f"target dir remap is {ex.get('target_dir_remap')}"
                if why:
                    problem = ("oracle", why)
            nontriv = len(case["includes"]) >= 1 and len(im) >= 5
            if nontriv:
                distinct.add(sha(json.dumps([sorted(im), case["includes"]], sort_keys=True).encode()))
        if problem:
            kind, why = problem
            if kind == "machinery":
                chk.violation("broken-obligation", "corr:archive", dict(input=desc, note=why), no_input=True)
            else:
                chk.violation("counterexample" if kind == "oracle" else "broken-obligation",
                              "oracle:roundtrip" if kind == "oracle" else "corr:archive",
                              dict(input=desc, clause=why, impl=dict(archive=ar, entries=[(e["path"], e["type"], e["len"]) for e in lt.get("entries", [])][:60], extract=ex),
                                   model=None if mm is None else sorted(mm)[:60]),
                              no_input=(kind != "oracle"))
            return False
        if ci == 1:
            chk.sample(dict(archive_case=dict(includes=case["includes"], tree=tree_desc(case["target_dir"])[:25],
                                              archive_ok=ar.get("ok"), entries=len(lt.get("entries", [])))))
    for case in cases:
        rm(case["dir"])
    return True


def tree_desc(root):
    out = []
    for rel, v in sorted(tree_listing(root).items()):
        out.append([rel, v[0], (v[1].hex()[:24] if v[0] == "f" else v[1]) if len(v) > 1 else ""])
    return out
