"""C02 — every selected test runs once to one final result; no double start / finish / skip; attempts
consecutive; the dispatcher never panics on a well-formed history.
Theorems: coq/Properties/C02.v.  Correspondence: corr:dispatcher-step (hook H2) on well-formed,
nearly well-formed and exhaustive small histories, with the protocol checker run on the
implementation's own handshake answers and cross-checked against wf_history in Coq
(corr:wf-history).  Oracle: C02's statement on the implementation's emitted stream."""
import json
import vlib, gen_tie
from props import dispatcher_common as dc
from props import C10 as c10

PROP = "C02"


def coq_ocheck_expr(case):
    """the per-test automaton of Properties/C02.v run over the model's emitted stream, for every
    test of the configuration: 1 if accepted"""
    c = dc.coq_cfg(case["cfg"])
    h = dc.coq_events(case["events"])
    mf = dc.coq_mf(case["max_fail"])
    tests = vlib.coq_list([str(t) for t in range(case["cfg"]["ntests"])])
    return (f"(let c := {c} in let o := out (Live (init_for c {mf} true)) {h} in "
            f"map (fun t => match ocheck (c_total c t) t ONone o with Some _ => 1 | None => 0 end) {tests})")


def run(tier, seed):
    chk = vlib.Check(PROP, tier, seed)
    gate = vlib.coq_gate(PROP, extra_targets=dc.EXTRA_TARGETS)
    vlib.gate_or_violation(chk, gate)
    # the run-level composition theorems (Properties/Run.v: C02_complete_if_not_cancelled, C11_all_units, ...)
    # are built and audited (hygiene, Print Assumptions) with this property
    gate_run = vlib.coq_gate("Run")
    vlib.gate_or_violation(chk, gate_run)
    for k in ("obligations", "discharged"):
        gate[k] += gate_run[k]
    gate["theorems"] = gate["theorems"] + gate_run["theorems"]
    gate["axioms"].update(gate_run["axioms"])
    # the refinement theorems (Properties/LifeRefines.v: the unit-life machine refines the executor protocol,
    # C01 / C02 / C10 with wf_history derived from it) are built and audited with this property as well
    gate_life = vlib.coq_gate("LifeRefines")
    vlib.gate_or_violation(chk, gate_life)
    for k in ("obligations", "discharged"):
        gate[k] += gate_life[k]
    gate["theorems"] = gate["theorems"] + gate_life["theorems"]
    gate["axioms"].update(gate_life["axioms"])
    # glue code (DESIGN 11.7, third round): run_count = |selected| (every mismatch reason counts as skipped) and the
    # priority queue keeps every listed test, read from nextest-runner/src/list/test_list.rs
    gen_tie.gate(chk, ['run_count', 'priority_queue', 'execute_filter_stage'], gate, family="glue")
    binary, err = vlib.build_harness()
    if binary is None:
        chk.violation("broken-obligation", "harness-build", dict(error=err), no_input=True)
        return chk.finish(gate, "make -C coq Properties/C02.vo", [])
    r = vlib.rng_for(seed, PROP)
    thorough = tier == "thorough"

    cases = c10.witnesses() + dc.load_corpus(PROP)
    n = 6000 if thorough else 1500
    while len(cases) < n * 0.6:
        cases.append(dc.gen_wf(r, maxlen=80, cancel_bias=0.6))
    while len(cases) < n * 0.9:
        cases.append(dc.gen_near(r))
    while len(cases) < n:
        cases.append(dc.gen_ill(r))
    if thorough:
        cases += list(dc.exhaustive_cases(4, None))
        cases += list(dc.exhaustive_cases(3, 1))
    else:
        cases += list(dc.exhaustive_cases(3, None))
    impl, mismatch = c10.run_step_correspondence(chk, binary, cases, r, None, tier, "c02s")
    wfm = dc.coq_eval("c02w", [dc.coq_wf_expr(c) for c in cases])

    oracle_failed = False
    distinct = set()
    wf_cases = []
    for c, i, w in zip(cases, impl, wfm):
        if "steps" not in i:
            continue
        steps = i["steps"]
        chk.count("dispatcher_step_cases")
        chk.count("steps", len(steps))
        pw = dc.py_wf(c, steps)
        panicked = bool(steps) and steps[-1]["panic"]
        nsig = sum(1 for e in c["events"] if e[0] == "sig")
        coq_wf = bool(w[0]) and c["initial"] == len(c["cfg"]["sel"])
        chk.count(f"kind={c['kind']},wf={pw is None},panic={panicked}")
        if (pw is None) != coq_wf and not panicked:
            chk.violation("broken-obligation", "corr:wf-history",
                          dict(input=c, python_protocol_check=pw, coq_wf_history=coq_wf,
                               note="protocol checker on the implementation's handshake answers and wf_history on "
                                    "the model's answers disagree"), no_input=True)
            break
        if pw is not None:
            continue
        wf_cases.append(c)
        retries = sum(1 for s in steps if not s["panic"] for e in s["emitted"] if e["k"] == "TestRetryStarted")
        chk.count("wf_retries_reported", retries)
        chk.count("wf_tests_finished",
                  sum(1 for s in steps if not s["panic"] for e in s["emitted"] if e["k"] == "TestFinished"))
        if nsig >= 3:
            chk.count("wf_with_third_signal")
        if len(c["cfg"]["sel"]) >= 2 and retries >= 1:
            distinct.add(json.dumps([c["events"], c["max_fail"]]))
        why = dc.oracle_c02(c, steps)
        if why and not oracle_failed:
            oracle_failed = True

            def orc(cc, ss):
                return dc.oracle_c02(cc, ss) if dc.py_wf(cc, ss) is None else None
            small = c10.shrink(binary, c, orc)
            ssteps = vlib.run_impl(binary, "dispatcher", [small])[0]["steps"]
            chk.violation("counterexample", "oracle:c02",
                          dict(input=small, original_input=c, clause=orc(small, ssteps) or why, impl=ssteps))

    # the theorem's automaton evaluated on the model's stream of the well-formed cases (sanity of the
    # statement on generated data: every one must be accepted)
    sample = [c for c in wf_cases if sum(1 for e in c["events"] if e[0] == "sig") <= 2][: (1500 if thorough else 400)]
    acc = dc.coq_eval("c02o", [coq_ocheck_expr(c) for c in sample])
    for c, a in zip(sample, acc):
        chk.count("ocheck_cases")
        if not all(a):
            chk.violation("broken-obligation", "thm:C02_attempts",
                          dict(input=c, accepted_per_test=a,
                               note="a well-formed history whose emitted stream the C02 automaton rejects"),
                          no_input=True)
            break

    if mismatch not in (None, "reported") and not oracle_failed:
        c, steps, m, d = mismatch

        def orc2(cc, ss):
            return dc.oracle_c02(cc, ss) if dc.py_wf(cc, ss) is None else None
        found = c10.search_around(binary, c, r, orc2, 3000 if thorough else 300)
        detail = dict(correspondence="corr:dispatcher-step", input=c, step=d[0], impl_step=d[1], model_step=d[2],
                      impl=steps[:d[0] + 1])
        if found:
            c2, s2, why = found
            chk.violation("counterexample", "corr:dispatcher-step",
                          dict(detail, failing_input=c2, failing_impl=s2, clause=why))
        else:
            chk.violation("broken-obligation", "corr:dispatcher-step",
                          dict(detail, note="implementation and model disagree; C02's oracle accepted the "
                                            "implementation on every well-formed history explored"), no_input=True)

    chk.sample(dict(history=cases[3]["events"][:30], selected=cases[3]["cfg"]["sel"],
                    total_attempts=cases[3]["cfg"]["total"],
                    impl_emitted=[[e["k"] + (":" + str(e["test"]) if "test" in e else "") for e in s.get("emitted", [])]
                                  for s in impl[3]["steps"]][:30]))
    chk.sample(dict(kind=cases[-1]["kind"], history=cases[-1]["events"]))
    chk.assumptions = [
        "wf_history (the executor protocol of run_test_instance / run_setup_scripts) is an assumption about "
        "runner/executor.rs, validated on real histories by the event tap (hook H1, corr:dispatcher-trace)",
        "one process invocation per reported attempt, attempts disjoint in time, no process for skipped tests: "
        "observed end to end (puppet log), not here",
        "every selected test is eventually started in an uncancelled run: scheduler liveness, C08 (finding F7)",
    ]
    # end-to-end stage: real cargo-nextest runs over the scripted puppet workspace (real schedules, real
    # process exit status), judged by this property's oracle (lib/e2e_general.py)
    try:
        import e2e_general
        e2e_general.stage(chk, PROP, tier, seed)
        # corr:dispatcher-trace (hook H1b): the history the real dispatcher received on real schedules is
        # checked against wf_history and replayed through fold dstep (lib/trace_tie.py)
        import trace_tie
        trace_tie.stage_trace(chk, tier, seed)
    except RuntimeError as ex:
        chk.violation("broken-obligation", "e2e-build", dict(error=str(ex)[-3000:]), no_input=True)
    return chk.finish(
        gate, "make -C coq Properties/C02.vo && coqc gen/assump_C02.v (Print Assumptions)",
        ["Coq 8.16.1 kernel + vm_compute",
         "hand-written model Model/{Result,Dispatcher,Unit}.v tied by corr:dispatcher-step (hook H2), corr:wf-history",
         "Python generators/canonicalisers/oracles in props/dispatcher_common.py, props/C02.py",
         "harness/src/dispatcher.rs"],
        dict(evaluations=sum(v for k, v in chk.counts.items() if k.endswith("_cases")),
             distinct_nontrivial=len(distinct),
             rule="a case is one event history (<= 8 tests, <= 80 events) stepped through handle_event and fold "
                  "dstep, every step compared; C02's oracle applies to the well-formed ones; non-trivial = "
                  "well-formed, at least 2 selected tests and at least one reported retry; distinct by (history, "
                  "max-fail)",
             traces_validated_against_impl=chk.counts.get("steps", 0)))


def replay(path, seed):
    d = json.load(open(path))
    print(json.dumps(d, indent=1)[:4000])
    binary, err = vlib.build_harness()
    inp = d.get("failing_input") or d.get("input")
    if isinstance(inp, dict) and inp.get("op") == "seq":
        steps = vlib.run_impl(binary, "dispatcher", [inp])[0]["steps"]
        pw = dc.py_wf(inp, steps)
        why = dc.oracle_c02(inp, steps) if pw is None else None
        model = dc.coq_eval("c02r", [dc.coq_seq_expr(inp)])[0]
        diff = dc.diff_seq(steps, model)
        print("well-formed:", pw or "yes", "| oracle:", why or "accepts", "| model vs implementation:",
              "agree" if diff is None else f"differ at step {diff[0]}")
        return 1 if (why or diff) else 0
    return 2   # not a kind of record this function knows how to replay (the driver then re-runs the check)
