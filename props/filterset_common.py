"""Shared pieces of the C05 / C20 checks: reading the implementation's observations (Rust Debug
output of ParsedExpr -> a Python AST), the code shared with Model/FiltersetParse.v (enc_pexpr),
grammar-directed generators, a renderer written from the documented precedence table, an
independent set-semantics evaluator, and the two-pass driver that evaluates the Coq parser model
with the real glob / regex engines' answers as per-case oracle tables.

Python AST: ('not', op, e) ('union', op, a, b) ('inter', op, a, b) ('diff', 0, a, b)
('parens', e) ('set', idx, payload); payload = ('m', kind, implicit, text) | ('p', 0 target|1 host)
| None.  kind: 0 equal 1 contains 2 glob 3 regex.  idx: SetDef declaration order."""
import json, os, re, subprocess
import vlib
from vlib import coq_str, coq_list

SETS = ["package", "deps", "rdeps", "kind", "binary", "binary_id", "platform", "test", "default",
        "all", "none"]
SET_IDX = {n: i for i, n in enumerate(SETS)}
DBG_SET = {"Package": 0, "Deps": 1, "Rdeps": 2, "Kind": 3, "Binary": 4, "BinaryId": 5,
           "Platform": 6, "Test": 7, "Default": 8, "All": 9, "None": 10}
NOT_OPS = ["not", "!"]
OR_OPS = ["or", "|", "+"]
AND_OPS = ["and", "&"]
DEFAULT_KIND = {0: 2, 1: 2, 2: 2, 3: 0, 4: 2, 5: 2, 7: 1}   # documented default matcher per predicate
ERR_KINDS = ["InvalidRegex", "InvalidRegexWithoutMessage", "InvalidGlob", "ExpectedCloseRegex",
             "InvalidOrOperator", "InvalidAndOperator", "UnexpectedArgument", "UnexpectedComma",
             "InvalidString", "ExpectedOpenParenthesis", "ExpectedCloseParenthesis",
             "InvalidEscapeCharacter", "ExpectedExpr", "ExpectedEndOfExpression",
             "InvalidPlatformArgument", "OutOfFuel"]
COMPILE_ERRS = {"NoPackageMatch", "NoBinaryIdMatch", "NoBinaryNameMatch", "BannedPredicate"}

# ------------------------------------------------------------------ Rust Debug output -> AST

_DTOK = re.compile(r'\s*(?:(?P<id>[A-Za-z_][A-Za-z0-9_]*)|(?P<num>\d+)|(?P<p>[(){},:])|(?P<q>"))')


def _read_rust_string(s, i):
    """s[i] is just after the opening quote of a Debug-formatted str; returns (text, next index)"""
    out = []
    while True:
        c = s[i]
        if c == '"':
            return "".join(out), i + 1
        if c == "\\":
            d = s[i + 1]
            if d == "u":
                j = s.index("}", i)
                out.append(chr(int(s[i + 3:j], 16)))
                i = j + 1
                continue
            out.append({"n": "\n", "r": "\r", "t": "\t", "0": "\0", "\\": "\\", '"': '"', "'": "'"}[d])
            i += 2
            continue
        out.append(c)
        i += 1


def parse_rust_debug(s):
    """generic tree: ('id', name, args|None, fields|None) | ('str', text) | ('num', n)"""
    pos = 0

    def tok():
        nonlocal pos
        m = _DTOK.match(s, pos)
        if not m:
            raise ValueError(f"debug output: cannot tokenize at {pos}: {s[pos:pos + 40]!r}")
        pos = m.end()
        return m

    def peek():
        m = _DTOK.match(s, pos)
        return m.group("p") if m else None

    def value():
        nonlocal pos
        m = tok()
        if m.group("q"):
            text, pos2 = _read_rust_string(s, pos)
            pos = pos2
            return ("str", text)
        if m.group("num") is not None:
            return ("num", int(m.group("num")))
        name = m.group("id")
        if name is None:
            raise ValueError(f"debug output: unexpected {m.group(0)!r} at {pos}")
        if name in ("true", "false"):
            return ("bool", name == "true")
        nxt = peek()
        if nxt == "(":
            tok()
            args = []
            while peek() != ")":
                args.append(value())
                if peek() == ",":
                    tok()
            tok()
            return ("id", name, args, None)
        if nxt == "{":
            tok()
            fields = {}
            while peek() != "}":
                k = tok().group("id")
                assert tok().group("p") == ":"
                fields[k] = value()
                if peek() == ",":
                    tok()
            tok()
            return ("id", name, None, fields)
        return ("id", name, None, None)

    v = value()
    if s[pos:].strip():
        raise ValueError("debug output: trailing text " + s[pos:pos + 40])
    return v


def _matcher_of(t):
    _, name, args, fields = t
    if name == "Equal":
        return ("m", 0, fields["implicit"][1], fields["value"][1])
    if name == "Contains":
        return ("m", 1, fields["implicit"][1], fields["value"][1])
    if name == "Glob":
        return ("m", 2, fields["implicit"][1], fields["glob"][3]["glob_str"][1])
    if name == "Regex":
        return ("m", 3, False, args[0][2][0][1])
    raise ValueError("unknown matcher " + name)


def ast_of_debug(t):
    _, name, args, fields = t
    if name == "Not":
        return ("not", {"LiteralNot": 0, "Exclamation": 1}[args[0][1]], ast_of_debug(args[1]))
    if name == "Union":
        return ("union", {"LiteralOr": 0, "Pipe": 1, "Plus": 2}[args[0][1]], ast_of_debug(args[1]),
                ast_of_debug(args[2]))
    if name == "Intersection":
        return ("inter", {"LiteralAnd": 0, "Ampersand": 1}[args[0][1]], ast_of_debug(args[1]),
                ast_of_debug(args[2]))
    if name == "Difference":
        return ("diff", {"Minus": 0}[args[0][1]], ast_of_debug(args[1]), ast_of_debug(args[2]))
    if name == "Parens":
        return ("parens", ast_of_debug(args[0]))
    if name == "Set":
        sd = args[0]
        idx = DBG_SET[sd[1]]
        if idx in (8, 9, 10):
            return ("set", idx, None)
        if idx == 6:
            return ("set", 6, ("p", {"Target": 0, "Host": 1}[sd[2][0][1]]))
        return ("set", idx, _matcher_of(sd[2][0]))
    raise ValueError("unknown expression node " + name)


def ast_of_dbg_string(s):
    return ast_of_debug(parse_rust_debug(s))


# ------------------------------------------------------------------ the code of enc_pexpr

def dec_ast(code):
    """inverse of Model/FiltersetParse.v enc_pexpr"""
    pos = 0

    def nxt():
        nonlocal pos
        v = code[pos]
        pos += 1
        return v

    def string():
        n = nxt()
        return "".join(chr(nxt()) for _ in range(n))

    def matcher():
        k = nxt()
        imp = bool(nxt())
        return ("m", k, imp if k != 3 else False, string())

    def expr():
        t = nxt()
        if t == 0:
            op = nxt()
            return ("not", op, expr())
        if t in (1, 2, 3):
            op = nxt()
            a = expr()
            b = expr()
            return (["union", "inter", "diff"][t - 1], op, a, b)
        if t == 4:
            return ("parens", expr())
        idx = nxt()
        if idx in (8, 9, 10):
            return ("set", idx, None)
        if idx == 6:
            return ("set", 6, ("p", nxt()))
        return ("set", idx, matcher())

    e = expr()
    assert pos == len(code), "trailing code"
    return e


def ast_to_json(a):
    return json.loads(json.dumps(a))


# ------------------------------------------------------------------ semantic trees and rendering
# A semantic tree has no 'parens' nodes; render() writes it following the documented table only
# (not < and,&,- < or,|,+; equal levels associate to the left; parentheses override), adds
# redundant parentheses / whitespace at random, and returns the text together with the AST the
# documentation says the parser must produce (parentheses as explicit nodes).

LEVEL = {"union": 1, "inter": 2, "diff": 2, "not": 3, "set": 4, "parens": 4}
WS_CHOICES = ["", "", " ", " ", "  ", "\n", "\r\n", " \n  "]


SIMPLE_ESC = {"\n": "\\n", "\r": "\\r", "\t": "\\t", "\x08": "\\b", "\x0c": "\\f", "\\": "\\\\",
              "/": "\\/", ")": "\\)", ",": "\\,"}


def unicode_esc(r, c):
    h = format(ord(c), "x")
    if r.random() < 0.3:
        h = h.upper()
    if len(h) < 6 and r.random() < 0.3:
        h = "0" * r.randint(1, 6 - len(h)) + h
    return "\\u{" + h + "}"


def esc_char(r, c):
    """a random accepted spelling of character c inside matcher text: ) , \\ must be escaped,
    every other character may stand for itself"""
    if r.random() < 0.12:
        return unicode_esc(r, c)
    if c in SIMPLE_ESC and (c in "),\\" or r.random() < 0.6):
        return SIMPLE_ESC[c]
    return c


def render_text(r, text, leading_sensitive):
    out = []
    for i, c in enumerate(text):
        s = esc_char(r, c)
        if i == 0 and leading_sensitive and s[0] in "=~#/ \n\r":
            # would be read as a matcher sigil or skipped as whitespace: must be an escape
            s = SIMPLE_ESC[c] if c in SIMPLE_ESC else unicode_esc(r, c)
        out.append(s)
    return "".join(out)


def render_regex(text):
    return text.replace("/", "\\/")


def render_matcher(r, m, set_idx, ws):
    _, kind, implicit, text = m
    lead = ws()
    if kind == 3:
        return lead + "/" + render_regex(text) + "/" + ws()
    if implicit:
        return lead + render_text(r, text, True)
    sig = "=~#"[kind]
    return lead + sig + render_text(r, text, False)


def render_set(r, node, ws):
    _, idx, payload = node
    name = SETS[idx]
    if payload is None:
        return name + ws() + "(" + r.choice(["", "", " ", "\n"]) + ")"
    if payload[0] == "p":
        return name + ws() + "(" + ws() + ["target", "host"][payload[1]] + r.choice(["", "", " "]) + ")"
    return name + ws() + "(" + render_matcher(r, payload, idx, ws) + ")"


def render(r, tree, noise=True):
    """-> (text, expected AST)"""
    def ws():
        return r.choice(WS_CHOICES) if noise else ""

    def sp():   # at least the single space Display writes, when noise is off
        return (r.choice([" ", " ", "  ", "\n", " \n"]) if noise else " ")

    def wrap(txt, ast):
        return "(" + ws() + txt + ws() + ")", ("parens", ast)

    def go(t, need):
        kind = t[0]
        if kind == "set":
            txt, ast = render_set(r, t, ws), t
        elif kind == "not":
            inner_txt, inner_ast = go(t[2], 3)
            op = NOT_OPS[t[1]]
            txt = (op + " " + ws() if op == "not" else op + ws()) + inner_txt
            ast = ("not", t[1], inner_ast)
        else:
            lvl = LEVEL[kind]
            a_txt, a_ast = go(t[2], lvl)
            b_txt, b_ast = go(t[3], lvl + 1)
            if kind == "union":
                op = OR_OPS[t[1]]
            elif kind == "inter":
                op = AND_OPS[t[1]]
            else:
                op = "-"
            word = op in ("or", "and")
            before = " " if not noise else (sp() if r.random() < 0.8 else ws())
            after = " " + ws() if word else (" " if not noise else ws())
            txt = a_txt + before + op + after + b_txt
            ast = (kind, t[1], a_ast, b_ast)
        if LEVEL[kind] < need:
            txt, ast = wrap(txt, ast)
        while noise and r.random() < 0.08:
            txt, ast = wrap(txt, ast)
        return txt, ast

    txt, ast = go(tree, 1)
    if noise:
        txt = ws() + txt + ws()
    return txt, ast


def strip_parens(a):
    k = a[0]
    if k == "parens":
        return strip_parens(a[1])
    if k == "not":
        return ("not", a[1], strip_parens(a[2]))
    if k == "set":
        return a
    return (k, a[1], strip_parens(a[2]), strip_parens(a[3]))


# ------------------------------------------------------------------ independent set semantics

def py_match(m, s, tables):
    _, kind, _, text = m
    if kind == 0:
        return s == text
    if kind == 1:
        return text in s
    if kind == 2:
        return tables["glob"][(text, s)]
    return tables["regex"][(text, s)]


def in_set(node, q, tables, world, default_fn):
    """q = dict(pkg=index, binary_id, binary_name, kind, platform, test)"""
    _, idx, payload = node
    names, dep = world["names"], world["depends_on"]
    if idx == 0:
        return py_match(payload, names[q["pkg"]], tables)
    if idx == 1:    # deps(m): packages that a matching package depends on
        return any(py_match(payload, names[i], tables) and dep[i][q["pkg"]] for i in range(len(names)))
    if idx == 2:    # rdeps(m): packages that depend on a matching package
        return any(py_match(payload, names[i], tables) and dep[q["pkg"]][i] for i in range(len(names)))
    if idx == 3:
        return py_match(payload, q["kind"], tables)
    if idx == 4:
        return py_match(payload, q["binary_name"], tables)
    if idx == 5:
        return py_match(payload, q["binary_id"], tables)
    if idx == 6:
        return q["platform"] == ["target", "host"][payload[1]]
    if idx == 7:
        return py_match(payload, q["test"], tables)
    if idx == 8:
        return default_fn(q)
    return idx == 9


def member(tree, q, tables, world, default_fn):
    k = tree[0]
    if k == "set":
        return in_set(tree, q, tables, world, default_fn)
    if k == "parens":
        return member(tree[1], q, tables, world, default_fn)
    if k == "not":
        return not member(tree[2], q, tables, world, default_fn)
    a = member(tree[2], q, tables, world, default_fn)
    b = member(tree[3], q, tables, world, default_fn)
    if k == "union":
        return a or b
    if k == "inter":
        return a and b
    return a and not b


def matchers_of(tree, acc=None):
    acc = [] if acc is None else acc
    k = tree[0]
    if k == "set":
        if tree[2] is not None and tree[2][0] == "m":
            acc.append(tree[2])
    elif k in ("parens",):
        matchers_of(tree[1], acc)
    elif k == "not":
        matchers_of(tree[2], acc)
    else:
        matchers_of(tree[2], acc)
        matchers_of(tree[3], acc)
    return acc


# ------------------------------------------------------------------ implementation side

def harness_env():
    return vlib.ENV


class HarnessPanic(Exception):
    """the implementation panicked on one input of an auxiliary query (the case is attached)"""
    def __init__(self, case, message):
        super().__init__(f"the implementation panicked on {json.dumps(case)[:300]}: {str(message)[:300]}")
        self.case, self.message = case, str(message)[:2000]


class HarnessHang(Exception):
    """the implementation did not come back on one input (the case is attached)"""
    def __init__(self, case, seconds):
        super().__init__(f"the implementation did not terminate within {seconds} s on {json.dumps(case)[:300]}")
        self.case, self.seconds = case, seconds


def _find_hanging_case(binary, chunk, per_case=10):
    """after a batch timed out: the first case of the chunk on which the harness alone does not come back"""
    for c in chunk:
        p = subprocess.Popen([binary, "filterset"], stdin=subprocess.PIPE, stdout=subprocess.PIPE,
                             stderr=subprocess.PIPE, env=vlib.ENV)
        try:
            p.communicate((json.dumps(c) + "\n").encode(), timeout=per_case)
        except subprocess.TimeoutExpired:
            p.kill()
            p.communicate()
            return c
    return None


def run_filterset(binary, cases, shards=8, timeout=240):
    """like vlib.run_impl, but splits the harness output on '\\n' only: serde_json writes U+2028,
    U+0085 ... unescaped and str.splitlines() would cut the JSON lines there"""
    if not cases:
        return []
    shards = max(1, min(shards, len(cases) // 50 + 1))
    per = (len(cases) + shards - 1) // shards
    procs = []
    for s in range(shards):
        chunk = cases[s * per:(s + 1) * per]
        if not chunk:
            continue
        p = subprocess.Popen([binary, "filterset"], stdin=subprocess.PIPE, stdout=subprocess.PIPE,
                             stderr=subprocess.PIPE, env=vlib.ENV)
        procs.append((p, ("\n".join(json.dumps(c) for c in chunk) + "\n").encode(), len(chunk), chunk))
    out = []
    for p, data, k, chunk in procs:
        try:
            o, e = p.communicate(data, timeout=timeout)
        except subprocess.TimeoutExpired:
            for q, _, _, _ in procs:
                q.kill()
            hang = _find_hanging_case(binary, chunk)
            if hang is not None:
                raise HarnessHang(hang, 10)
            raise
        lines = [l for l in o.decode("utf-8").split("\n") if l.strip()]
        if p.returncode != 0 or len(lines) != k:
            raise RuntimeError(f"harness filterset failed rc={p.returncode} got {len(lines)}/{k}: "
                               f"{e.decode('utf-8', 'replace')[-1500:]}")
        out.extend(json.loads(l) for l in lines)
    return out


def impl_oracle(binary, globs, regexes, inputs):
    """validity (and match tables over [inputs]) from the real engines, via the crate's own
    NameMatcher values. Returns (glob_valid, glob_match, regex_info, regex_match)."""
    globs, regexes = sorted(set(globs)), sorted(set(regexes))
    gv, gm, ri, rm = {}, {}, {}, {}
    # a pattern ending in a backslash cannot be written between slashes (the backslash would
    # escape the closing slash); the parser never hands such a pattern to the engine
    for r_ in [x for x in regexes if x.endswith("\\")]:
        ri[r_] = ("nomsg",)
    regexes = [x for x in regexes if not x.endswith("\\")]
    cases, chunks = [], []
    CH = 40
    for i in range(0, max(len(globs), 1), CH):
        chunks.append(("g", globs[i:i + CH]))
    for i in range(0, max(len(regexes), 1), CH):
        chunks.append(("r", regexes[i:i + CH]))
    for kind, items in chunks:
        cases.append(dict(op="oracle", globs=items if kind == "g" else [],
                          regexes=items if kind == "r" else [], inputs=inputs))
    res = run_filterset(binary, cases) if cases else []
    for case, out in zip(cases, res):
        if "panic" in out:
            # find the single pattern that does it
            for key in ("globs", "regexes"):
                for item in case[key]:
                    one = run_filterset(binary, [dict(op="oracle", globs=[item] if key == "globs" else [],
                                                      regexes=[item] if key == "regexes" else [], inputs=[])])[0]
                    if "panic" in one:
                        raise HarnessPanic({"matcher": key[:-1], "pattern": item}, one["panic"])
            raise HarnessPanic(case, out["panic"])
    for out in res:
        for g in out["globs"]:
            if g["valid"] is None and g["g"] != "":
                raise RuntimeError("glob oracle could not classify " + repr(g))
            gv[g["g"]] = bool(g["valid"])
            if g["valid"]:
                for i, v in zip(inputs, g["m"]):
                    gm[(g["g"], i)] = v
        for x in out["regexes"]:
            if x["valid"] is None:
                raise RuntimeError("regex oracle could not classify " + repr(x))
            if x["valid"]:
                ri[x["r"]] = ("ok",)
                for i, v in zip(inputs, x["m"]):
                    rm[(x["r"], i)] = v
            elif "off" in x:
                ri[x["r"]] = ("err", x["off"], x["len"])
            else:
                ri[x["r"]] = ("nomsg",)
    return gv, gm, ri, rm


# ------------------------------------------------------------------ independent glob semantics (a subset)

def py_glob_regex(g):
    """the documented meaning of a glob on a subset where it is unambiguous: printable ASCII without
    '/', '\\' or '**'; `*` any run of characters, `?` one character, `[set]` / `[!set]` one character of
    (not of) the set with a-z ranges, `{x,y,}` alternation (empty alternatives allowed, no nesting), any
    other character itself. Returns a compiled Python regex or None when [g] is outside the subset."""
    import re as _re
    if not g or any(not (32 <= ord(c) < 127) for c in g) or "/" in g or "\\" in g or "**" in g:
        return None
    out, i, depth = [], 0, 0
    while i < len(g):
        c = g[i]
        if c == "*":
            out.append(".*")
        elif c == "?":
            out.append(".")
        elif c == "[":
            j = i + 1
            neg = j < len(g) and g[j] in "!^"
            if neg:
                j += 1
            k = j
            if k < len(g) and g[k] == "]":
                k += 1
            while k < len(g) and g[k] != "]":
                k += 1
            if k >= len(g):
                return None
            body = g[j:k]
            if not body or "[" in body or body.startswith("-") or body.endswith("-") or "^" in body or "]" in body:
                return None
            cls = ""
            m = 0
            while m < len(body):
                if m + 2 < len(body) and body[m + 1] == "-":
                    if body[m] > body[m + 2]:
                        return None
                    cls += _re.escape(body[m]) + "-" + _re.escape(body[m + 2])
                    m += 3
                else:
                    cls += _re.escape(body[m])
                    m += 1
            out.append("[" + ("^" if neg else "") + cls + "]")
            i = k
        elif c == "{":
            if depth:
                return None
            depth = 1
            out.append("(?:")
        elif c == "}":
            if not depth:
                return None
            depth = 0
            out.append(")")
        elif c == "," and depth:
            out.append("|")
        else:
            out.append(_re.escape(c))
        i += 1
    if depth:
        return None
    return _re.compile("".join(out), _re.S)


def glob_semantics_disagreements(gv, gm):
    """pairs (glob, input) of the implementation's table that contradict py_glob_regex"""
    bad, n = [], 0
    cache = {}
    for (g, inp), v in gm.items():
        if g not in cache:
            cache[g] = py_glob_regex(g) if gv.get(g) else None
        rx = cache[g]
        if rx is None or any(not (32 <= ord(c) < 127) for c in inp):
            continue
        n += 1
        want = rx.fullmatch(inp) is not None
        if want != bool(v):
            bad.append(dict(glob=g, input=inp, impl=bool(v), documented=want))
    return bad, n


def regex_semantics_disagreements(ri, rm):
    """the same for /regex/ matchers: unanchored search, on patterns made only of literals, `.`, `*`,
    `+`, `^`, `$`, `|` and simple classes (where Python's re and the documented syntax coincide)"""
    import re as _re
    bad, n = [], 0
    safe = set("abcdefghijklmnopqrstuvwxyzABCDEFGHIJKLMNOPQRSTUVWXYZ0123456789_ .*+^$[]|-")
    cache = {}
    for (rx, inp), v in rm.items():
        if rx not in cache:
            ok = rx != "" and set(rx) <= safe and ri.get(rx) == ("ok",) and "[^" not in rx and "[]" not in rx
            try:
                cache[rx] = _re.compile(rx) if ok else None
            except _re.error:
                cache[rx] = None
        c = cache[rx]
        if c is None or any(not (32 <= ord(ch) < 127) for ch in inp):
            continue
        n += 1
        want = c.search(inp) is not None
        if want != bool(v):
            bad.append(dict(regex=rx, input=inp, impl=bool(v), documented=want))
    return bad, n


# ------------------------------------------------------------------ model side

PARSE_IMPORTS = ["Base.Str", "Model.FiltersetAst", "Model.FiltersetParse"]


def coq_fix(fx):
    return "(mkpfix %s %s %s)" % tuple(vlib.coq_bool(b) for b in fx)


def coq_syntax_oracle(globs, regexes, dflt=False):
    gl = coq_list([f"({coq_str(g)}, {vlib.coq_bool(v)})" for g, v in globs])
    rx = []
    for p, info in regexes:
        if info[0] == "ok":
            rx.append(f"({coq_str(p)}, RxOk)")
        elif info[0] == "err":
            rx.append(f"({coq_str(p)}, RxErr {max(info[1], 0)} {info[2]})")
        else:
            rx.append(f"({coq_str(p)}, RxErrNoMsg)")
    return f"(oracle_of_tables {gl} {coq_list(rx)} {vlib.coq_bool(dflt)})"


def decode_model_parse(v):
    code, printed, errs = v
    ast = dec_ast(code[1:]) if code else None
    out_errs = []
    for e in errs:
        k, off, ln = e[0], e[1], e[2]
        out_errs.append((ERR_KINDS[k], off, ln, vlib.decode_str(e[3:])))
    return dict(ast=ast, printed=vlib.decode_str(printed) if code else None, errors=out_errs)


def model_parse(tag, binary, strings, fx=(True, True, True)):
    """Evaluate the Coq parser model on every string. Pass 1 runs with an oracle that rejects every
    glob / regex, which makes the model report each text it hands to an engine (validity does not
    influence what the parser consumes); the real engines are then asked about exactly those
    texts, and pass 2 re-runs the strings that queried an engine with the answers as tables.
    Returns (list of decoded results, tables used per string)."""
    empty = coq_syntax_oracle([], [], False)
    exprs = [f"enc_parse {empty} {coq_fix(fx)} {coq_str(s)}" for s in strings]
    first = [decode_model_parse(v) for v in vlib.coq_eval(tag + "a", PARSE_IMPORTS, exprs)]
    need = []
    globs, regexes = set(), set()
    for i, res in enumerate(first):
        qs = [(k, p) for (k, _, _, p) in res["errors"]
              if k in ("InvalidGlob", "InvalidRegex", "InvalidRegexWithoutMessage")]
        if qs:
            need.append((i, qs))
            for k, p in qs:
                (globs if k == "InvalidGlob" else regexes).add(p)
    gv, _, ri, _ = impl_oracle(binary, globs, regexes, [])
    tables = [None] * len(strings)
    exprs2 = []
    for i, qs in need:
        gl = sorted({(p, gv[p]) for k, p in qs if k == "InvalidGlob"})
        rx = sorted({(p, ri[p]) for k, p in qs if k != "InvalidGlob"})
        tables[i] = dict(globs=gl, regexes=rx)
        exprs2.append(f"enc_parse {coq_syntax_oracle(gl, rx, False)} {coq_fix(fx)} {coq_str(strings[i])}")
    second = [decode_model_parse(v) for v in vlib.coq_eval(tag + "b", PARSE_IMPORTS, exprs2)]
    out = list(first)
    for (i, _), res in zip(need, second):
        out[i] = res
    return out, tables


# ------------------------------------------------------------------ observations of the implementation

def impl_parse_view(obs):
    """-> dict(valid, ast, printed, parse_errors [(kind, off, len)], compile_errors, fs_ok, unknown)"""
    pe, fs = obs["pe"], obs["fs"]
    ast = ast_of_dbg_string(pe["dbg"]) if pe["ok"] else None
    errs = [] if fs["ok"] else fs["errors"]
    parse_errs = [tuple(e) for e in errs if e[0] not in COMPILE_ERRS and len(e) == 3]
    compile_errs = [tuple(e) for e in errs if e[0] in COMPILE_ERRS]
    spanless = [e for e in errs if len(e) != 3]
    return dict(valid=pe["ok"], ast=ast, printed=pe.get("disp"), parse_errors=parse_errs,
                compile_errors=compile_errs, fs_ok=fs["ok"], spanless=spanless,
                pe_errors=[tuple(e) for e in pe.get("errors", [])], length=obs["len"])


# ------------------------------------------------------------------ generators

HOSTILE = list("ab_- +|&!(),/#=~\\'\"*?[]{}.^$") + ["\n", "\t", "\r", "é", "ß", "𝄞", " ", " ", "\x7f", "\x01"]
TEST_NAMES = ["a", "b", "ab", "x", "a b", "it's", 'say "hi"', "x,y", "p)q", "é", "a/b", "=a", "~b",
              "#a", " a", "a\\b", "mod::test_a", "a\nb", "𝄞b", "a-b+c", "a|b&!c"]
KINDS = ["lib", "test", "bin", "bench", "example", "proc-macro", "li b"]
PKG_NAMES = ["crate_a", "crate_b", "crate_c", "crate_d", "crate_e", "crate_f", "crate_g"]
REGEXES = ["a.*", "^a", "b$", "[ab]+", "a|b", "\\w+", "a\\/b", "é", "", "^crate_[a-c]$", "crate_", "a/b",
           ".", "\\\\a", "x{2,3}", "(?i)A", "\\p{Greek}", "\\//"]
BAD_REGEXES = ["(", "[a", "*a", "a{2,1}", "\\", "(?P<n>", "\\p{Nope}", "a)/(b",
               # invalid patterns with several '/' (each written \/ in the filterset) before the faulty position
               "a/b/(", "//[a", "x/y/z/(?P<n>", "a/b/c/d/*", "/////("]
GLOBS = ["a*", "*b", "?", "[ab]*", "{a,b}", "a", "*", "crate_*", "crate_[a-c]", "*_?", "**", "a\\b", "[!a]*",
         "{a,}b", "é*", "a b", "*/*"]
BAD_GLOBS = ["[a", "{a", "a{b,{c}}", "[z-a]", "a}"]


def gen_text(r, pool=None):
    k = r.random()
    if pool and k < 0.55:
        t = r.choice(pool)
        if r.random() < 0.4 and len(t) > 1:
            i = r.randrange(len(t))
            j = r.randint(i + 1, len(t))
            t = t[i:j]
        return t
    return "".join(r.choice(HOSTILE) for _ in range(r.randint(1, 4)))


def gen_matcher(r, set_idx, pool, must_match=None, allow_bad=False):
    """must_match: list of names of which at least one has to match (package / binary predicates
    must select something for the filterset to compile) -- met by construction"""
    if must_match:
        nm = r.choice(must_match)
        k = r.random()
        if k < 0.3:
            return ("m", DEFAULT_KIND[set_idx], True, nm if DEFAULT_KIND[set_idx] != 2 else r.choice([nm, nm[:-1] + "?", "crate_*", "*" + nm[-2:], "crate_[a-d]"]))
        if k < 0.45:
            return ("m", 0, False, nm)
        if k < 0.6:
            return ("m", 1, False, r.choice([nm, nm[2:], "rate_", "_" + nm[-1]]))
        if k < 0.8:
            return ("m", 2, False, r.choice([nm, "crate_*", "*", "crate_[a-c]", "*" + nm[-1], "crate_{a,d,g}"]))
        return ("m", 3, False, r.choice(["crate_", "^crate_[a-e]$", nm + "$", "_[" + nm[-1] + "g]", "crate_(a|b|f)"]))
    k = r.random()
    if k < 0.4:
        kind = DEFAULT_KIND[set_idx]
        if kind == 2:
            return ("m", 2, True, r.choice(GLOBS + (BAD_GLOBS if allow_bad else [])))
        return ("m", kind, True, gen_text(r, pool))
    if k < 0.55:
        return ("m", 0, False, gen_text(r, pool))
    if k < 0.7:
        return ("m", 1, False, gen_text(r, pool))
    if k < 0.85:
        return ("m", 2, False, r.choice(GLOBS + (BAD_GLOBS if allow_bad else [])))
    return ("m", 3, False, r.choice(REGEXES + (BAD_REGEXES if allow_bad else [])))


def gen_leaf(r, compilable=True, allow_default=True, allow_bad=False):
    k = r.random()
    if k < 0.34:
        return ("set", 7, gen_matcher(r, 7, TEST_NAMES, allow_bad=allow_bad))
    if k < 0.46:
        return ("set", 3, gen_matcher(r, 3, KINDS, allow_bad=allow_bad))
    if k < 0.58:
        idx = r.choice([4, 5])
        return ("set", idx, gen_matcher(r, idx, PKG_NAMES, must_match=PKG_NAMES if compilable else None,
                                        allow_bad=allow_bad))
    if k < 0.76:
        idx = r.choice([0, 1, 2])
        return ("set", idx, gen_matcher(r, idx, PKG_NAMES, must_match=PKG_NAMES if compilable else None,
                                        allow_bad=allow_bad))
    if k < 0.84:
        return ("set", 6, ("p", r.randint(0, 1)))
    if k < 0.9 and allow_default:
        return ("set", 8, None)
    return ("set", r.choice([9, 10]), None)


def gen_tree(r, depth, **kw):
    if depth <= 0 or r.random() < 0.25:
        return gen_leaf(r, **kw)
    k = r.random()
    if k < 0.22:
        return ("not", r.randint(0, 1), gen_tree(r, depth - 1, **kw))
    if k < 0.5:
        return ("union", r.randint(0, 2), gen_tree(r, depth - 1, **kw), gen_tree(r, depth - 1, **kw))
    if k < 0.8:
        return ("inter", r.randint(0, 1), gen_tree(r, depth - 1, **kw), gen_tree(r, depth - 1, **kw))
    return ("diff", 0, gen_tree(r, depth - 1, **kw), gen_tree(r, depth - 1, **kw))


TOKENS = (SETS + ["(", ")", "(", ")", " ", " ", "\n", "\r\n", "\t", "not ", "not", "!", "and ", "and", "&", "&&",
                  "AND ", "or ", "or", "|", "||", "OR ", "+", "-", ",", "/", "#", "=", "~", "\\", "\\u{", "\\u{41}",
                  "\\u{d800}", "\\u{110000}", "\\u{1234567}", "}", "\\n", "\\)", "\\,", "\\x", "a", "b", "lib",
                  "host", "target", "crate_a", "crate_*", "/a.*/", "/(/", "#[a", "é", "𝄞", "'", '"', "*", "["])


def gen_soup(r):
    return "".join(r.choice(TOKENS) for _ in range(r.randint(1, 10)))


def gen_garbage(r):
    def ch():
        k = r.random()
        if k < 0.5:
            return chr(r.randint(0x20, 0x7e))
        if k < 0.6:
            return r.choice("\n\r\t\0\x7f")
        if k < 0.8:
            return chr(r.choice([r.randint(0xa0, 0x2ff), r.randint(0x2000, 0x206f), r.randint(0x3000, 0x30ff)]))
        c = r.randint(0x10000, 0x10ffff)
        return chr(c)
    return "".join(ch() for _ in range(r.randint(0, 12)))


def mutate(r, s):
    if not s:
        return r.choice(TOKENS)
    i = r.randrange(len(s))
    k = r.random()
    if k < 0.3:
        return s[:i] + s[i + 1:]
    if k < 0.5:
        return s[:i] + s[i] + s[i:]
    if k < 0.7 and len(s) > 1:
        j = min(i + 1, len(s) - 1)
        l = list(s)
        l[i], l[j] = l[j], l[i]
        return "".join(l)
    if k < 0.9:
        return s[:i] + r.choice(TOKENS) + s[i:]
    return s[:i] + r.choice(HOSTILE) + s[i + 1:]


def tree_depth(t):
    k = t[0]
    if k == "set":
        return 0
    if k in ("parens",):
        return 1 + tree_depth(t[1])
    if k == "not":
        return 1 + tree_depth(t[2])
    return 1 + max(tree_depth(t[2]), tree_depth(t[3]))


def tree_ops(t, acc=None):
    acc = {} if acc is None else acc
    k = t[0]
    if k == "set":
        acc["set:" + SETS[t[1]]] = acc.get("set:" + SETS[t[1]], 0) + 1
        if t[2] is not None and t[2][0] == "m":
            key = "matcher:" + ["equal", "contains", "glob", "regex"][t[2][1]] + (":implicit" if t[2][2] else "")
            acc[key] = acc.get(key, 0) + 1
        return acc
    if k == "parens":
        acc["parens"] = acc.get("parens", 0) + 1
        return tree_ops(t[1], acc)
    name = {"not": NOT_OPS, "union": OR_OPS, "inter": AND_OPS, "diff": ["-"]}[k][t[1]]
    acc["op:" + name] = acc.get("op:" + name, 0) + 1
    for c in t[2:]:
        tree_ops(c, acc)
    return acc


# ------------------------------------------------------------------ known-finding classes (F6)
# the Python mirrors of Known_quotes / Known_leading / Known_regex_pair in Proofs/FiltersetRoundtrip.v

def known_quotes(ast):
    return any(m[1] != 3 and ("'" in m[3] or '"' in m[3]) for m in matchers_of(ast))


def known_leading(ast):
    return any(m[1] != 3 and m[2] and m[3][:1] in ("=", "~", "#", " ") for m in matchers_of(ast))


def known_regex_pair(ast):
    for m in matchers_of(ast):
        if m[1] == 3:
            esc = False
            for c in m[3]:
                if esc:
                    if c == "/":
                        return True
                    esc = False
                elif c == "\\":
                    esc = True
    return False


def finding_status():
    """-> {id: 'finding' | 'fixed' | None} for the F6 parts, from known_findings.json"""
    kf = vlib.known_findings()
    out = {}
    for fid in ("F6a", "F6b", "F6c", "F6d"):
        st = None
        for f in kf.get("findings", []):
            if f.get("property") == "C20" and f.get("id") == fid:
                st = "finding"
        for line in kf.get("fixed", []):
            if "property=C20" in line and fid in line:
                st = st or "fixed"
        out[fid] = st
    return out
