"""Shared by props/C10.py, C01.py, C02.py: the dispatcher-step correspondence (corr:dispatcher-step).

An event history is a list of compact JSON arrays (see EVENT SYNTAX); the same history is
 * stepped through the real DispatcherContext::handle_event (hook H2, harness module `dispatcher`),
 * folded through the Coq model (`obs_run`, vm_compute),
and everything observable after every step is diffed: emitted event kinds with their ids / reasons /
counters / statistics snapshots, the handshake outcome, the HandleEventResponse, and the state
(run_stats, cancel_state, running counts, signal count, paused).  Never messages or timestamps.

The oracles further down are written against the *property text* and look only at what the
implementation did; they share no code with the Coq model.

EVENT SYNTAX            res = [code, signal+1 (0 = none), leaked]   code: 0 Pass 1 Leak 2 Fail 3 ExecFail 4 Timeout
  ["ss", s]             att = res + [is_slow, attempt, total_attempts]
  ["sl", s, wt]         SetupScriptSlow            ["sf", s, res]        SetupScriptFinished
  ["st", t]             Started                    ["slow", t, no, total, wt]
  ["afwr", t, att]      AttemptFailedWillRetry     ["rs", t, no, total]  RetryStarted
  ["fin", t, att]       Finished                   ["skip", t]           Skipped
  ["sig", "hup|term|quit|int"]  ["stop"] ["cont"] ["infosig", usr1] ["info"] ["enter"] ["rc"]
"""
import itertools, json, os
import vlib

IMPORTS = ["Model.Result", "Model.Dispatcher", "Model.DispatcherObs", "Model.Unit"]
PRELUDE = "From Coq Require Import List NArith ZArith Bool.\nImport ListNotations.\nOpen Scope N_scope.\n"
EXTRA_TARGETS = ["Model/DispatcherObs.vo", "Model/Unit.vo"]
REASONS = ["SetupScriptFailure", "TestFailure", "ReportError", "Signal", "Interrupt", "SecondSignal"]
RANK = {r: i for i, r in enumerate(REASONS)}
SIGS = ["hup", "term", "quit", "int"]
START_KINDS = ("TestStarted", "TestRetryStarted", "SetupScriptStarted")
START_REQUESTS = ("st", "rs", "ss")
MAX_TESTS = 8


# ----------------------------------------------------------------------------- Coq syntax

def coq_res(res):
    c, sg, lk = res[0], res[1], res[2]
    if c == 0:
        return "Pass"
    if c == 1:
        return "Leak"
    if c == 2:
        return f"(Fail {'None' if sg == 0 else f'(Some {sg - 1})'} {vlib.coq_bool(lk)})"
    return "ExecFail" if c == 3 else "Timeout"


def coq_att(a):
    return f"(mk_attempt {coq_res(a)} {vlib.coq_bool(a[3])} {a[4]} {a[5]})"


COQ_SIG = {"hup": "Hangup", "term": "Term", "quit": "Quit", "int": "SInterrupt"}


def coq_event(ev):
    k = ev[0]
    if k == "ss":
        return f"ScriptStarted {ev[1]}"
    if k == "sl":
        return f"ScriptSlow {ev[1]} {vlib.coq_bool(ev[2])}"
    if k == "sf":
        return f"ScriptFinished {ev[1]} {coq_res(ev[2])}"
    if k == "st":
        return f"Started {ev[1]}"
    if k == "slow":
        return f"Slow {ev[1]} {ev[2]} {ev[3]} {vlib.coq_bool(ev[4])}"
    if k == "afwr":
        return f"AttemptFailedWillRetry {ev[1]} {coq_att(ev[2])}"
    if k == "rs":
        return f"RetryStarted {ev[1]} {ev[2]} {ev[3]}"
    if k == "fin":
        return f"Finished {ev[1]} {coq_att(ev[2])}"
    if k == "skip":
        return f"Skipped {ev[1]}"
    if k == "sig":
        return f"SigShutdown {COQ_SIG[ev[1]]}"
    if k == "stop":
        return "SigStop"
    if k == "cont":
        return "SigCont"
    if k == "infosig":
        return f"SigInfo {'IkUsr1' if ev[1] else 'IkInfo'}"
    if k == "info":
        return "InputInfo"
    if k == "enter":
        return "InputEnter"
    if k == "rc":
        return "ReportCancel"
    raise ValueError(ev)


def coq_mf(mf):
    return "None" if mf is None else f"(Some {mf})"


def coq_events(evs):
    return vlib.coq_list([coq_event(e) for e in evs])


def coq_seq_expr(case):
    return (f"obs_run (Live (init {case['initial']} {coq_mf(case['max_fail'])} true)) "
            f"{coq_events(case['events'])}")


def coq_cfg(cfg):
    tot = "fun t => " + "".join(f"if t =? {t} then {n} else " for t, n in sorted(cfg["total"].items())) + "1"
    return (f"(mk_cfg {vlib.coq_list([str(t) for t in cfg['sel']])} "
            f"{vlib.coq_list([str(t) for t in cfg['unsel']])} ({tot}) {cfg['nscripts']})")


def coq_wf_expr(case):
    """[wf?; exit code under the 4 policies (or 999 when panicked); spec exit under the 4 policies]"""
    c = coq_cfg(case["cfg"])
    h = coq_events(case["events"])
    mf = coq_mf(case["max_fail"])
    return (f"(let c := {c} in let h := {h} in "
            f"b2n (wf_history c {mf} true h) :: "
            f"map (fun p => match run_exit c {mf} true h (enc_no_tests p) with Some z => Z.to_N z | None => 999 end) [0;1;2;3] ++ "
            f"map (fun p => Z.to_N (spec_exit c h (enc_no_tests p))) [0;1;2;3])")


def coq_eval(tag, exprs, batch=4000):
    """vlib.coq_eval in batches (one giant list literal per shard is too much for coqc)"""
    out = []
    for i in range(0, len(exprs), batch):
        out.extend(vlib.coq_eval(tag, IMPORTS, exprs[i:i + batch], PRELUDE))
    return out


# ----------------------------------------------------------------------------- canonical form of an impl step

RESP = {"none": [0, 0], "job_stop": [1, 0], "job_continue": [2, 0], "info_usr1": [3, 0],
        "info_siginfo": [3, 1], "info_input": [3, 2], "cancel_report": [4, 0],
        "cancel_test_failure": [4, 1], "cancel_signal_once:hup": [4, 2],
        "cancel_signal_once:term": [4, 3], "cancel_signal_once:quit": [4, 4],
        "cancel_signal_once:int": [4, 5], "cancel_signal_twice": [4, 6]}
HS = {"none": 0, "accepted": 1, "refused": 2}


def opt_rank(c):
    return 0 if c is None else RANK[c] + 1


def canon_emitted(e):
    k = e["k"]
    b = int
    if k == "SetupScriptStarted":
        return [0, e["script"]]
    if k == "SetupScriptSlow":
        return [1, e["script"], b(e["will_terminate"])]
    if k == "SetupScriptFinished":
        return [2, e["script"]] + e["result"]
    if k == "TestStarted":
        return [3, e["test"], e["running"], opt_rank(e["cancel"])] + e["stats"]
    if k == "TestSlow":
        return [4, e["test"], e["attempt"], e["total"], b(e["will_terminate"])]
    if k == "TestAttemptFailedWillRetry":
        return [5, e["test"]] + e["status"]
    if k == "TestRetryStarted":
        return [6, e["test"], e["attempt"], e["total"]]
    if k == "TestFinished":
        return ([7, e["test"], e["running"], opt_rank(e["cancel"])] + e["stats"]
                + [len(e["statuses"]), e["describe"]] + [x for a in e["statuses"] for x in a])
    if k == "TestSkipped":
        return [8, e["test"]]
    if k == "RunBeginCancel":
        return [9, e["scripts_running"], e["running"], RANK[e["reason"]]]
    if k == "RunBeginKill":
        return [10, e["scripts_running"], e["running"], RANK[e["reason"]]]
    if k == "RunPaused":
        return [11, e["scripts_running"], e["running"]]
    if k == "RunContinued":
        return [12, e["scripts_running"], e["running"]]
    if k == "InputEnter":
        return [13, e["running"], opt_rank(e["cancel"])] + e["stats"]
    return [99]


def unit_code(received):
    """what handle_event itself sent to individual units: 0 nothing, t+1 = OtherCancel to test t only"""
    if not received:
        return 0
    if len(received) == 1 and received[0][0] is not None and received[0][1] == ["other_cancel"]:
        return received[0][0] + 1
    return 999


def canon_step(st):
    if st["panic"]:
        return [[1], [HS[st["hs"]], 0, 0, 0]]
    s = st["state"]
    return ([[0, opt_rank(s["cancel"]), s["running"], s["scripts_running"], s["signal_count"],
              int(s["paused"])] + s["stats"], [HS[st["hs"]]] + RESP[st["resp"]] + [unit_code(st.get("received"))]]
            + [canon_emitted(e) for e in st["emitted"]])


PANICKED_STEP = [[1], [0, 0, 0, 0]]


def diff_seq(impl_steps, model_steps):
    """first step at which implementation and model differ: (index, impl canon, model canon) or None"""
    for i, mo in enumerate(model_steps):
        if i < len(impl_steps):
            ci = canon_step(impl_steps[i])
            if ci != mo:
                return i, ci, mo
        else:
            # the implementation stopped: it must have panicked, and the model must be Panicked
            if not impl_steps or not impl_steps[-1]["panic"] or mo != PANICKED_STEP:
                return i, None, mo
    if len(impl_steps) > len(model_steps):
        return len(model_steps), canon_step(impl_steps[len(model_steps)]), None
    return None


# ----------------------------------------------------------------------------- generators

def is_fail(res):
    return res[0] >= 2


def gen_res(r, want_fail=None):
    if want_fail is None:
        want_fail = r.random() < 0.4
    if not want_fail:
        return [r.choice([0, 0, 0, 1]), 0, 0]
    c = r.choice([2, 2, 2, 3, 4])
    if c == 2:
        return [2, r.choice([0, 0, 7, 10, 12]), int(r.random() < 0.3)]
    return [c, 0, 0]


def gen_cfg(r):
    ntests = r.choice([0, 1, 2, 2, 3, 4, 5, 6, 7, 8, 8, 8])
    keep = r.choice([1.0, 0.9, 0.8, 0.8, 0.5])
    sel = [t for t in range(ntests) if r.random() < keep]
    unsel = [t for t in range(ntests) if t not in sel]
    total = {t: r.choice([1, 1, 2, 3, 4]) for t in range(ntests)}
    return dict(ntests=ntests, sel=sel, unsel=unsel, total=total, nscripts=r.choice([0, 0, 0, 1, 2, 3]))


def gen_wf(r, maxlen=80, cancel_bias=0.5, max_running=None):
    """Simulates the executor protocol: every unit follows run_test_instance / run_setup_scripts
    against *predicted* handshake answers (a three-line predictor of `cancel_state.is_some()`; it is
    only a generation bias — whether a history really is well-formed is decided afterwards by
    wf_history in Coq and by py_wf on the implementation's own answers)."""
    cfg = gen_cfg(r)
    mf = r.choice([None, None, 1, 1, 2, 3])
    events = []
    cancelled, failed, nsig = False, 0, 0
    script_i, script_running = 0, False
    phase = {t: ("idle", 0) for t in range(cfg["ntests"])}
    # per-test plan: how many attempts fail before a pass (or all fail)
    plan = {t: [r.random() < 0.45 for _ in range(cfg["total"][t])] for t in range(cfg["ntests"])}
    env_rate = r.choice([0.0, 0.03, 0.08]) if r.random() < cancel_bias else 0.0
    max_running = max_running or r.choice([1, 2, 3, 8])
    while len(events) < maxlen:
        acts = []
        if script_i < cfg["nscripts"]:
            acts.append(("script",))
        else:
            running = sum(1 for p in phase.values() if p[0] in ("running", "delay"))
            for t, (p, k) in phase.items():
                if p == "idle":
                    if t in cfg["unsel"] or running < max_running:
                        acts.append(("test", t))
                elif p in ("running", "delay"):
                    acts.append(("test", t))
        if r.random() < env_rate:
            acts.append(("env",))
        if not acts:
            break
        a = r.choice(acts)
        if a[0] == "script":
            if not script_running:
                events.append(["ss", script_i])
                if cancelled:
                    script_i += 1
                else:
                    script_running = True
            elif r.random() < 0.2:
                events.append(["sl", script_i, int(r.random() < 0.3)])
            else:
                res = gen_res(r, r.random() < 0.2)
                events.append(["sf", script_i, res])
                script_running = False
                script_i += 1
                if is_fail(res):
                    cancelled = True
        elif a[0] == "test":
            t = a[1]
            p, k = phase[t]
            tot = cfg["total"][t]
            if p == "idle":
                if t in cfg["unsel"]:
                    events.append(["skip", t])
                    phase[t] = ("done", 0)
                else:
                    events.append(["st", t])
                    phase[t] = ("done", 0) if cancelled else ("running", 1)
            elif p == "running":
                if r.random() < 0.15:
                    events.append(["slow", t, k, tot, int(r.random() < 0.3)])
                    continue
                fails = plan[t][k - 1]
                att = gen_res(r, fails) + [int(r.random() < 0.2), k, tot]
                if fails and k < tot:
                    events.append(["afwr", t, att])
                    phase[t] = ("delay", k)
                else:
                    events.append(["fin", t, att])
                    phase[t] = ("done", 0)
                    if fails:
                        failed += 1
                        if mf is not None and failed >= mf:
                            cancelled = True
            elif p == "delay":
                events.append(["rs", t, k + 1, tot])
                phase[t] = ("done", 0) if cancelled else ("running", k + 1)
        else:
            e = r.choice([["sig", r.choice(SIGS)], ["sig", r.choice(SIGS)], ["rc"], ["stop"], ["cont"],
                          ["enter"], ["info"], ["infosig", r.randint(0, 1)]])
            if e[0] == "sig":
                if nsig >= 2 and r.random() < 0.9:
                    continue
                nsig += 1
                cancelled = True
            if e[0] == "rc":
                cancelled = True
            events.append(e)
    return dict(op="seq", kind="wf", ntests=max(cfg["ntests"], 1), nscripts=cfg["nscripts"],
                initial=len(cfg["sel"]), max_fail=mf, events=events, cfg=cfg)


def gen_any_event(r, ntests, nscripts):
    t = r.randrange(max(ntests, 1))
    s = r.randrange(max(nscripts, 1))
    tot = r.choice([1, 2, 3])
    no = r.randint(1, 3)
    k = r.choice(["ss", "sl", "sf", "st", "st", "slow", "afwr", "rs", "fin", "fin", "skip", "sig", "stop",
                  "cont", "infosig", "info", "enter", "rc"])
    if k == "ss":
        return ["ss", s]
    if k == "sl":
        return ["sl", s, r.randint(0, 1)]
    if k == "sf":
        return ["sf", s, gen_res(r)]
    if k == "st":
        return ["st", t]
    if k == "slow":
        return ["slow", t, no, tot, r.randint(0, 1)]
    if k == "afwr":
        return ["afwr", t, gen_res(r) + [r.randint(0, 1), no, tot]]
    if k == "rs":
        return ["rs", t, no, tot]
    if k == "fin":
        return ["fin", t, gen_res(r) + [r.randint(0, 1), no, tot]]
    if k == "skip":
        return ["skip", t]
    if k == "sig":
        return ["sig", r.choice(SIGS)]
    if k == "infosig":
        return ["infosig", r.randint(0, 1)]
    return [k]


def gen_ill(r, maxlen=40):
    """deliberately ill-formed stream: arbitrary events in arbitrary order"""
    ntests = r.choice([1, 2, 3, 8])
    nscripts = r.choice([1, 2])
    n = r.randint(1, maxlen)
    cfg = dict(ntests=ntests, sel=list(range(ntests)), unsel=[], total={t: 3 for t in range(ntests)},
               nscripts=nscripts)
    return dict(op="seq", kind="ill", ntests=ntests, nscripts=nscripts, initial=r.choice([0, ntests, 5]),
                max_fail=r.choice([None, 0, 1, 2]), events=[gen_any_event(r, ntests, nscripts) for _ in range(n)],
                cfg=cfg)


def gen_near(r):
    """a well-formed history with one to three local mutations"""
    c = gen_wf(r, maxlen=50)
    evs = list(c["events"])
    for _ in range(r.randint(1, 3)):
        if not evs:
            break
        i = r.randrange(len(evs))
        m = r.choice(["del", "dup", "swap", "ins", "retarget"])
        if m == "del":
            del evs[i]
        elif m == "dup":
            evs.insert(i, evs[i])
        elif m == "swap" and i + 1 < len(evs):
            evs[i], evs[i + 1] = evs[i + 1], evs[i]
        elif m == "ins":
            evs.insert(i, gen_any_event(r, c["ntests"], max(c["nscripts"], 1)))
        elif m == "retarget" and evs[i][0] in ("st", "fin", "afwr", "rs", "skip", "slow"):
            e = list(evs[i])
            e[1] = r.randrange(c["ntests"])
            evs[i] = e
    c = dict(c, kind="near", events=evs)
    c["nscripts"] = max(c["nscripts"], 1)
    return c


def alphabet2():
    """the 2-test alphabet of the exhaustive sweep (1 script, total_attempts = 2)"""
    p1, f1 = [0, 0, 0, 0, 1, 2], [2, 0, 0, 0, 1, 2]
    f2 = [2, 0, 0, 0, 2, 2]
    return [["st", 0], ["st", 1], ["fin", 0, p1], ["fin", 0, f2], ["fin", 1, f1], ["afwr", 0, f1],
            ["rs", 0, 2, 2], ["ss", 0], ["sf", 0, [0, 0, 0]], ["sf", 0, [2, 0, 0]], ["sig", "term"],
            ["sig", "int"], ["rc"], ["skip", 1], ["stop"], ["cont"], ["enter"]]


def exhaustive_cases(length, max_fail, alphabet=None):
    al = alphabet or alphabet2()
    cfg = dict(ntests=2, sel=[0, 1], unsel=[], total={0: 2, 1: 2}, nscripts=1)
    for seq in itertools.product(range(len(al)), repeat=length):
        yield dict(op="seq", kind="exh", ntests=2, nscripts=1, initial=2, max_fail=max_fail,
                   events=[al[i] for i in seq], cfg=cfg)


# ----------------------------------------------------------------------------- python protocol checker

def py_wf(case, steps):
    """The executor protocol (DESIGN 'Shared run model'), checked on the history annotated with the
    *implementation's* handshake answers.  Returns None if well-formed, else a reason string."""
    cfg = case["cfg"]
    sel, unsel, total = cfg["sel"], cfg["unsel"], {int(k): v for k, v in cfg["total"].items()}
    if len(set(sel)) != len(sel) or set(sel) & set(unsel) or any(total.get(t, 1) < 1 for t in sel):
        return "bad configuration"
    if case["initial"] != len(sel):
        return "initial_run_count differs from the number of selected tests"
    phase = {}
    nxt, srun = 0, False
    for i, ev in enumerate(case["events"]):
        if i >= len(steps):
            return None if steps and steps[-1]["panic"] else "missing step"
        hs = steps[i]["hs"]
        k = ev[0]
        if k in ("sig", "stop", "cont", "infosig", "info", "enter", "rc"):
            continue
        if k in ("ss", "sl", "sf"):
            s = ev[1]
            if k == "ss":
                if s != nxt or s >= cfg["nscripts"] or srun or hs == "none":
                    return f"step {i}: script start out of order"
                if hs == "accepted":
                    srun = True
                else:
                    nxt += 1
            else:
                if s != nxt or not srun:
                    return f"step {i}: script event without a running script"
                if k == "sf":
                    nxt, srun = nxt + 1, False
            continue
        t = ev[1]
        p = phase.get(t, ("idle", 0))
        tot = total.get(t, 1)
        if k in ("st", "skip"):
            if nxt != cfg["nscripts"] or srun:
                return f"step {i}: test event before the setup scripts are done"
            if p[0] != "idle":
                return f"step {i}: second start/skip of test {t}"
            if k == "st":
                if t not in sel or hs == "none":
                    return f"step {i}: start of an unselected test"
                phase[t] = ("running", 1) if hs == "accepted" else ("refused", 0)
            else:
                if t not in unsel:
                    return f"step {i}: skip of a selected test"
                phase[t] = ("skipped", 0)
        elif k == "slow":
            if p[0] != "running" or ev[2] != p[1] or ev[3] != tot:
                return f"step {i}: slow outside a running attempt"
        elif k == "afwr":
            a = ev[2]
            if p[0] != "running" or a[4] != p[1] or a[5] != tot or not p[1] < tot or not is_fail(a):
                return f"step {i}: AttemptFailedWillRetry not allowed here"
            phase[t] = ("delay", p[1])
        elif k == "rs":
            if p[0] != "delay" or ev[2] != p[1] + 1 or ev[3] != tot or hs == "none":
                return f"step {i}: RetryStarted not allowed here"
            phase[t] = ("running", p[1] + 1) if hs == "accepted" else ("refused_retry", p[1])
        elif k == "fin":
            a = ev[2]
            if p[0] != "running" or a[4] != p[1] or a[5] != tot or not (not is_fail(a) or tot <= p[1]):
                return f"step {i}: Finished not allowed here"
            phase[t] = ("finished", 0)
    return None


# ----------------------------------------------------------------------------- oracles on the implementation's behaviour

def oracle_c10(case, steps):
    """C10's statement evaluated on what the implementation did.  Returns a failing clause or None."""
    mf = case["max_fail"]
    announced = False          # a RunBeginCancel / RunBeginKill has been emitted
    reasons = []               # reasons of RunBeginCancel so far
    prev_cancel = None
    failed = 0                 # ground truth: tests whose final attempt was not a success
    nsig = 0
    for i, ev in enumerate(case["events"]):
        if i >= len(steps):
            break
        st = steps[i]
        if ev[0] == "sig":
            nsig += 1
        if st["panic"]:
            if ev[0] == "sig" and nsig == 3:
                break  # "the third signal panics" is the documented behaviour
            break      # other panics are C02's business (ill-formed histories)
        if announced and ev[0] in START_REQUESTS and st["hs"] == "accepted":
            return f"step {i}: start request {ev} accepted after cancellation began"
        step_cancels, step_kill = [], False
        for e in st["emitted"]:
            if announced and e["k"] in START_KINDS:
                return f"step {i}: {e['k']} emitted after cancellation began"
            if e["k"] == "RunBeginCancel":
                announced = True
                step_cancels.append(e["reason"])
            if e["k"] == "RunBeginKill":
                announced = True
                step_kill = True
        for rs in step_cancels:
            if reasons and RANK[rs] <= RANK[reasons[-1]]:
                return f"step {i}: RunBeginCancel {rs} announced after {reasons[-1]} (not an escalation)"
            reasons.append(rs)
        cur = st["state"]["cancel"]
        if opt_rank(cur) < opt_rank(prev_cancel):
            return f"step {i}: cancel_state went from {prev_cancel} to {cur}"
        # max-fail exactness (ground truth = results carried by the Finished events)
        want_tf = False
        if ev[0] == "fin":
            if is_fail(ev[2]):
                failed += 1
            want_tf = mf is not None and failed >= mf and opt_rank(prev_cancel) < opt_rank("TestFailure")
        if want_tf != ("TestFailure" in step_cancels):
            return (f"step {i}: max-fail={mf}, {failed} failed so far, cancel_state before = {prev_cancel}: "
                    f"RunBeginCancel(TestFailure) {'missing' if want_tf else 'unexpected'}")
        want_ssf = ev[0] == "sf" and is_fail(ev[2]) and prev_cancel is None
        if want_ssf != ("SetupScriptFailure" in step_cancels):
            return f"step {i}: setup script failure announcement {'missing' if want_ssf else 'unexpected'}"
        if ("ReportError" in step_cancels) and ev[0] != "rc":
            return f"step {i}: ReportError announced without a report error"
        if step_kill != (ev[0] == "sig" and nsig == 2):
            return f"step {i}: RunBeginKill {'unexpected' if step_kill else 'missing'} (shutdown signal #{nsig})"
        # which request is handed to the running units
        resp = st["resp"]
        if step_kill:
            ok = resp == "cancel_signal_twice"
        elif step_cancels:
            last = step_cancels[-1]
            if last in ("SetupScriptFailure", "TestFailure"):
                ok = resp == "cancel_test_failure"
            elif last == "ReportError":
                ok = resp == "cancel_report"
            else:
                ok = ev[0] == "sig" and resp == f"cancel_signal_once:{ev[1]}" and \
                    last == ("Interrupt" if ev[1] == "int" else "Signal")
        else:
            ok = not resp.startswith("cancel")
        if not ok:
            return f"step {i}: response {resp} does not fit the announcement {step_cancels or step_kill}"
        # a unit that reports a failed attempt while the run is being cancelled is told again (so that
        # it does not sit out its retry delay); nothing else is sent to single units
        want_unit = [[ev[1], ["other_cancel"]]] if ev[0] == "afwr" and prev_cancel is not None else []
        if st.get("received", []) != want_unit:
            return (f"step {i} ({ev}), cancel_state before = {prev_cancel}: units were individually sent "
                    f"{st.get('received')}, expected {want_unit}")
        prev_cancel = cur
    return None


def oracle_c02(case, steps):
    """C02 on a well-formed history: per test at most one TestStarted / TestFinished / TestSkipped,
    Finished after Started, skipped iff unselected, attempts 1..k consecutive, no panic."""
    cfg = case["cfg"]
    total = {int(k): v for k, v in cfg["total"].items()}
    nsig = sum(1 for e in case["events"] if e[0] == "sig")
    seen = {}
    for i, st in enumerate(steps):
        if st["panic"]:
            if nsig >= 3 and case["events"][i][0] == "sig":
                return None
            return f"step {i}: dispatcher panicked on a well-formed history: {st.get('msg', '')[:80]}"
        for e in st["emitted"]:
            if "test" not in e:
                continue
            t = e["test"]
            s = seen.setdefault(t, dict(started=0, finished=0, skipped=0, next=1, pending_retry=None))
            k = e["k"]
            if k == "TestStarted":
                s["started"] += 1
                if s["started"] > 1:
                    return f"step {i}: test {t} reported started twice"
                if t not in cfg["sel"]:
                    return f"step {i}: unselected test {t} started"
            elif k == "TestSkipped":
                s["skipped"] += 1
                if s["skipped"] > 1 or t in cfg["sel"]:
                    return f"step {i}: bad skip of test {t}"
            elif k == "TestAttemptFailedWillRetry":
                a = e["status"]
                if not s["started"] or s["finished"] or a[4] != s["next"] or s["pending_retry"] is not None:
                    return f"step {i}: attempt {a[4]} of test {t} reported failed out of order"
                s["pending_retry"] = a[4]
            elif k == "TestRetryStarted":
                if s["pending_retry"] is None or e["attempt"] != s["pending_retry"] + 1 \
                        or e["attempt"] > total.get(t, 1):
                    return f"step {i}: retry {e['attempt']} of test {t} started without a preceding failed attempt"
                s["next"], s["pending_retry"] = e["attempt"], None
            elif k == "TestFinished":
                s["finished"] += 1
                if s["finished"] > 1:
                    return f"step {i}: test {t} reported finished twice"
                if not s["started"]:
                    return f"step {i}: test {t} finished without having started"
                nos = [a[4] for a in e["statuses"]]
                if nos != list(range(1, len(nos) + 1)) or len(nos) > total.get(t, 1) or nos[-1] != s["next"] \
                        or s["pending_retry"] is not None:
                    return f"step {i}: test {t} finished with attempts {nos} (expected 1..{s['next']})"
    for t, s in seen.items():
        if s["skipped"] and (s["started"] or s["finished"]):
            return f"test {t} both skipped and run"
    return None


def exit_arm(final, policy):
    """transcription of the final `match run_stats.summarize_final()` of App::exec_run composed with
    ExpectedError::process_exit_code (policy: 0 default, 1 pass, 2 warn, 3 fail)"""
    code = final[0]
    if code == 0:
        return 0
    if code == 1:
        return 0 if policy in (1, 2) else 4
    if code in (2, 4):
        return 105
    return 100


def ground_truth_exit(case, steps, policy):
    """C01's right-hand side from ground truth only: the results carried by the events fed."""
    cfg = case["cfg"]
    n = len(steps) if not (steps and steps[-1]["panic"]) else len(steps) - 1
    evs = case["events"][:n]
    if any(e[0] == "sf" and is_fail(e[2]) for e in evs):
        return 105
    finals = {}
    for e in evs:
        if e[0] == "fin" and e[1] not in finals:
            finals[e[1]] = e[2]
    if any(t not in finals or is_fail(finals[t]) for t in cfg["sel"]):
        return 100
    if not cfg["sel"] and policy in (0, 3):
        return 4
    return 0


def check_trace(case, steps, tag="trace"):
    """For the end-to-end rig (corr:dispatcher-trace): `case` = configuration + the events the real
    dispatcher *received* (EVENT SYNTAX above, `cfg` = selected / unselected tests, total attempts,
    number of scripts), `steps` = per received event what the real run did: {"hs": "none|accepted|
    refused", "emitted": [event dicts as produced by harness/src/dispatcher.rs emitted_json]}.
    Returns (why_not_wf or None, first (index, impl, model) at which the emitted events / handshake
    differ from `fold dstep`, or None)."""
    full = [dict(panic=False, **s) for s in steps]
    why = py_wf(case, full)
    model = coq_eval(tag, [coq_seq_expr(case)])[0]
    for i, (st, mo) in enumerate(zip(steps, model)):
        got = [HS[st["hs"]], [canon_emitted(e) for e in st["emitted"]]]
        want = [mo[1][0], mo[2:]]
        if got != want:
            return why, (i, got, want)
    return why, None


def describe_event(ev):
    return json.dumps(ev)


def load_corpus(prop):
    p = os.path.join(vlib.VERIF, "corpus", prop + ".json")
    return json.load(open(p)) if os.path.exists(p) else []
