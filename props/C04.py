"""C04 — the set of tests run is exactly the documented composition of all filters.

Theorems: coq/Properties/C04.v. Correspondence (every run):
  corr:filter-case    TestFilterBuilder::new(..), filter_binary_match, build().filter_match(..) (public
                      API) and TestList::process_output (hook H4) on generated filter configurations
                      over 1-4 binaries of the fixture package graph, against Model/{NameFilter,
                      FilterFull,Partition}.v evaluated with vm_compute. The filterset stage of the model
                      is abstract: its truth tables are taken from the real evaluator for the case.
  corr:binary-table   every combination of up to three filtersets with binary-level answers
                      Some true / Some false / None x default filter x bound (exhaustive).
  corr:cli-args       the real clap definition + merge_test_binary_args + make_test_filter_builder
                      (hook H8, cargo-nextest) against Model/CliArgs.v.
Oracle (plain Python, written from the documentation, not from the model): the five-clause
selection rule with the first failing stage as the reason, the binary-level soundness clause, and
the documented meaning of the emulated libtest arguments."""
import copy, json, os
import vlib, gen_tie
from vlib import coq_str, coq_list, coq_bool, decode_str
from props.C13 import py_xxh64

PROP = "C04"
IMPORTS = ["Base.Str", "Model.Xxh64", "Model.Filter", "Model.NameFilter", "Model.Partition",
           "Model.FilterFull", "Model.CliArgs", "Proofs.Partition"]
PRELUDE = """
Definition tblf (l : list (str * bool)) : str -> bool :=
  fun nm => match find (fun e : str * bool => str_eqb (fst e) nm) l with
            | Some e => snd e | None => false end.
Definition enc_cases (l : list tcase) : list (list N) :=
  map (fun e : tcase => (if fst (snd e) then 1 else 0) :: fmatch_code (snd (snd e)) :: fst e) l.
Definition suite_obs (s : suite) : N * list (list N) :=
  match s with
  | Listed l => (0, enc_cases l)
  | Skipped BRExpression => (2, [])
  | Skipped BRDefaultSet => (3, [])
  end.
Definition case_obs (f : tfilter) (ebs : list (option bool)) (db : option bool)
           (calls : list (str * bool)) (ni ig : list str) :=
  (bmatch_code (filter_binary_match ebs db (tf_bound f)),
   map fmatch_code (filter_match_seq f 0 calls),
   enc_cases (process_output (tf_pb f) (pre_full f) ni ig),
   suite_obs (list_binary f ebs db ni ig)).
Definition ri_code (r : option run_ignored) : N :=
  match r with None => 0 | Some RIDefault => 1 | Some RIOnly => 2 | Some RIAll => 3 end.
Definition err_code (e : cli_error) : N :=
  match e with EDuplicated => 1 | EMissingArg => 2 | EMutuallyExclusive => 3 | EUnsupported => 4 end.
Definition cli_obs (ri0 : option run_ignored) (pre args : list str) (calls : list (str * bool)) :=
  match merge_test_binary_args ri0 pre args with
  | CliErr e => (err_code e, 0, 0, @nil (list str), @nil N)
  | CliOk ri p =>
      (0, ri_code ri, (if has_positive p then 1 else 0),
       [subs_of p; exacts_of p; skips_of p; skip_exacts_of p],
       map fmatch_code
         (filter_match_seq {| tf_ri := effective_ri ri; tf_pb := None; tf_pats := resolve p;
                              tf_ets := []; tf_dt := fun _ => true; tf_bound := BAll |} 0 calls))
  end.
"""

# ------------------------------------------------------------------ fixture: binaries and filtersets

BINARIES = [
    dict(pkg="a", id="crate_a", name="crate_a", kind="lib", platform="target"),
    dict(pkg="a", id="crate_a::x", name="x", kind="test", platform="target"),
    dict(pkg="a", id="crate_a::bin/crate_b", name="crate_b", kind="bin", platform="target"),
    dict(pkg="b", id="crate_b", name="crate_b", kind="lib", platform="target"),
    dict(pkg="b", id="crate_b", name="crate_b", kind="lib", platform="host"),
    dict(pkg="b", id="crate_b::crate_a", name="crate_a", kind="test", platform="target"),
    dict(pkg="c", id="crate_c", name="crate_c", kind="proc-macro", platform="host"),
    dict(pkg="d", id="crate_d::bench/x", name="x", kind="bench", platform="target"),
]

# (expression, documented meaning as a Python predicate over (binary, test name, default predicate))
MENU = [
    ("all()", lambda b, n, d: True),
    ("none()", lambda b, n, d: False),
    ("package(crate_a)", lambda b, n, d: b["pkg"] == "a"),
    ("package(crate_b)", lambda b, n, d: b["pkg"] == "b"),
    ("not package(crate_a)", lambda b, n, d: b["pkg"] != "a"),
    ("test(a)", lambda b, n, d: "a" in n),
    ("test(b)", lambda b, n, d: "b" in n),
    ("test(=ab)", lambda b, n, d: n == "ab"),
    ("not test(b)", lambda b, n, d: "b" not in n),
    ("kind(lib)", lambda b, n, d: b["kind"] == "lib"),
    ("kind(lib) & test(a)", lambda b, n, d: b["kind"] == "lib" and "a" in n),
    ("kind(test) - test(a)", lambda b, n, d: b["kind"] == "test" and "a" not in n),
    ("platform(host)", lambda b, n, d: b["platform"] == "host"),
    # binary()/binary_id() must name a build target of the package graph (only crate_X libs there)
    ("binary(crate_a)", lambda b, n, d: b["name"] == "crate_a"),
    ("binary(crate_*)", lambda b, n, d: b["name"].startswith("crate_")),
    ("binary_id(crate_b)", lambda b, n, d: b["id"] == "crate_b"),
    ("package(crate_a) | test(b)", lambda b, n, d: b["pkg"] == "a" or "b" in n),
    ("platform(target) and not (test(_) or kind(bench))",
     lambda b, n, d: b["platform"] == "target" and not ("_" in n or b["kind"] == "bench")),
    ("default()", lambda b, n, d: d(b, n)),
    ("default() & test(a)", lambda b, n, d: d(b, n) and "a" in n),
]
MENU_FN = dict(MENU)
DEFAULT_MENU = [e for e, _ in MENU if "default()" not in e]

ALPHA = ["a", "b", "_"]
RI = {"default": "RIDefault", "only": "RIOnly", "all": "RIAll"}


def gen_name(r, lo=1, hi=4):
    if r.random() < 0.04:
        return r.choice(["aé", "é_b", "a::b", "b::a_"])
    return "".join(r.choice(ALPHA) for _ in range(r.randint(lo, hi)))


def gen_pattern(r, names):
    k = r.random()
    if names and k < 0.45:
        return r.choice(names)                       # a whole test name
    if names and k < 0.7:
        nm = r.choice(names)                         # a substring of one
        i = r.randrange(len(nm))
        return nm[i:r.randint(i + 1, len(nm))]
    if k < 0.74:
        return ""
    return gen_name(r, 1, 3)


def gen_binary(r, desc, shared_names):
    ntests = r.choice([0, 1, 2, 3, 4, 5, 6, 8])
    names = []
    tries = 0
    while len(names) < ntests and tries < 100:
        tries += 1
        nm = r.choice(shared_names) if shared_names and r.random() < 0.3 else gen_name(r)
        if nm not in names:
            names.append(nm)
    ign = [nm for nm in names if r.random() < 0.35]
    calls = [[nm, nm in ign] for nm in names]
    if names and r.random() < 0.25:                  # the same name asked about twice / other flag
        nm = r.choice(names)
        calls.append([nm, r.random() < 0.5])
    if r.random() < 0.5:
        r.shuffle(calls)
    else:
        calls.sort()
    non_ignored = list(names) if r.random() < 0.75 else [n for n in names if n not in ign]
    ignored = list(ign)
    r.shuffle(non_ignored)
    r.shuffle(ignored)
    b = dict(desc)
    b.update(calls=calls, non_ignored=non_ignored, ignored=ignored)
    return b, names


PATTERN_SHAPES = ["none", "skipexact-only", "skip-only", "skips-mixed", "sub", "exact", "sub+exact",
                  "positive+skips", "everything"]


def gen_patterns(r, names):
    shape = r.choices(PATTERN_SHAPES, [2, 3, 2, 2, 2, 2, 1, 3, 3])[0]
    pre, ops = [], []

    def some(kind, lo=1, hi=3):
        return [[kind, gen_pattern(r, names)] for _ in range(r.randint(lo, hi))]
    if shape == "skipexact-only":
        ops = some("skipexact")
    elif shape == "skip-only":
        ops = some("skip")
    elif shape == "skips-mixed":
        ops = some("skip") + some("skipexact")
    elif shape == "sub":
        ops = some("sub")
    elif shape == "exact":
        ops = some("exact")
    elif shape == "sub+exact":
        ops = some("sub") + some("exact")
    elif shape == "positive+skips":
        ops = some(r.choice(["sub", "exact"])) + some(r.choice(["skip", "skipexact"]))
    elif shape == "everything":
        ops = some("sub", 0, 3) + some("exact", 0, 3) + some("skip", 0, 3) + some("skipexact", 0, 3)
    r.shuffle(ops)
    if r.random() < 0.3:       # some substring patterns arrive through TestFilterPatterns::new
        subs = [o for o in ops if o[0] == "sub"]
        take = subs[:r.randint(0, len(subs))]
        for o in take:
            ops.remove(o)
            pre.append(o[1])
    return shape, pre, ops


def gen_case(r):
    nb = r.choice([1, 1, 2, 2, 3, 4])
    descs = r.sample(BINARIES, nb)
    shared = [gen_name(r) for _ in range(3)]
    bins, allnames = [], []
    for d in descs:
        b, names = gen_binary(r, d, shared)
        bins.append(b)
        allnames += names
    shape, pre, ops = gen_patterns(r, allnames)
    nfs = r.choice([0, 0, 1, 1, 2])
    part = None
    pk = r.choice(["none", "none", "count", "hash"])
    if pk != "none":
        n = r.choice([1, 2, 2, 3])
        part = dict(kind=pk, m=r.randint(1, n), n=n)
    return dict(op="case", ri=r.choice(["default", "default", "only", "all"]), partition=part,
                pre=pre, ops=ops, shape=shape,
                filtersets=[r.choice(MENU)[0] for _ in range(nfs)],
                default=r.choice(["all()", "all()", r.choice(DEFAULT_MENU), r.choice(DEFAULT_MENU)]),
                bound=r.choice(["all", "default", "default"]), binaries=bins)


def binary_table_cases():
    """every list of <= 3 filtersets whose binary-level answers are Some true / Some false / None,
    x default filter answer x bound"""
    tri = ["all()", "none()", "test(a)"]
    out = []
    lists = [[]]
    for k in range(1, 4):
        lists += [[tri[(i // 3 ** j) % 3] for j in range(k)] for i in range(3 ** k)]
    for fs in lists:
        for d in tri:
            for bound in ("all", "default"):
                b = dict(BINARIES[0])
                b.update(calls=[["a", False], ["b", False]], non_ignored=["a", "b"], ignored=[])
                out.append(dict(op="case", ri="default", partition=None, pre=[], ops=[], shape="none",
                                filtersets=fs, default=d, bound=bound, binaries=[b]))
    return out


# ------------------------------------------------------------------ the model side

def coq_pb(p):
    if not p:
        return "None"
    return f"(Some (mkpb {'PCount' if p['kind'] == 'count' else 'PHash'} {p['m']} {p['n']}))"


OPS = {"sub": "OpSub", "exact": "OpExact", "skip": "OpSkip", "skipexact": "OpSkipExact"}


def coq_patterns(c):
    ops = coq_list([f"{OPS[k]} {coq_str(s)}" for k, s in c["ops"]])
    return f"(build_patterns {coq_list([coq_str(s) for s in c['pre']])} {ops})"


def coq_opt(code):
    return {0: "Some false", 1: "Some true", 2: "None"}[code]


def coq_case_binary(c, b, res, resolve="resolve"):
    names = res["names"]

    def tbl(col):
        return "(tblf " + coq_list([f"({coq_str(n)}, {coq_bool(v)})" for n, v in zip(names, col)]) + ")"
    f = ("{| tf_ri := %s; tf_pb := %s; tf_pats := %s %s; tf_ets := %s; tf_dt := %s; tf_bound := %s |}"
         % (RI[c["ri"]], coq_pb(c["partition"]), resolve, coq_patterns(c),
            coq_list([tbl(col) for col in res["ets"]]), tbl(res["dt"]),
            "BDefaultSet" if c["bound"] == "default" else "BAll"))
    calls = coq_list([f"({coq_str(n)}, {coq_bool(i)})" for n, i in b["calls"]])
    return (f"case_obs {f} {coq_list(['(' + coq_opt(x) + ')' for x in res['ebs']])} ({coq_opt(res['db'])}) "
            f"{calls} {coq_list([coq_str(s) for s in b['non_ignored']])} "
            f"{coq_list([coq_str(s) for s in b['ignored']])}")


def norm_list(lst):
    return [[ign, code] + [ord(ch) for ch in nm] for nm, ign, code in lst]


def impl_obs(res):
    """the implementation's answers in the shape of case_obs"""
    lst = norm_list(res["list"])
    suite = [0, lst] if res["bin"] < 2 else [res["bin"], []]
    return [res["bin"], res["calls"], lst, suite]


# ------------------------------------------------------------------ the oracle (documentation only)

def positives(c):
    subs = list(c["pre"]) + [s for k, s in c["ops"] if k == "sub"]
    exacts = [s for k, s in c["ops"] if k == "exact"]
    skips = [s for k, s in c["ops"] if k == "skip"]
    skipx = [s for k, s in c["ops"] if k == "skipexact"]
    return subs, exacts, skips, skipx


def doc_stages(c, b, name, ign):
    """the first four documented clauses for one test; returns the reason code of the first that
    rejects (1 ignored, 2 name, 3 filtersets, 5 default filter) or 0"""
    ri = c["ri"]
    if (ri == "default" and ign) or (ri == "only" and not ign):
        return 1
    subs, exacts, skips, skipx = positives(c)
    skipped = name in skipx or any(s in name for s in skips)
    wanted = (not subs and not exacts) or name in exacts or any(s in name for s in subs)
    if skipped or not wanted:
        return 2
    dflt = MENU_FN[c["default"]]

    def d(bb, nn):
        return dflt(bb, nn, None)
    if c["filtersets"] and not any(MENU_FN[e](b, name, d) for e in c["filtersets"]):
        return 3
    if c["bound"] == "default" and not d(b, name):
        return 5
    return 0


def doc_sequence(c, b, calls):
    """documented verdicts for a sequence of tests presented to one filter (count partitioning
    counts the tests that pass every other filter, in order)"""
    out, cnt = [], 0
    p = c["partition"]
    for name, ign in calls:
        code = doc_stages(c, b, name, ign)
        if code == 0 and p:
            if p["kind"] == "hash":
                ok = py_xxh64(name.encode()) % p["n"] == p["m"] - 1
            else:
                ok = cnt % p["n"] == p["m"] - 1
                cnt += 1
            if not ok:
                code = 4
        out.append(code)
    return out


def doc_listing(c, b):
    """documented verdicts for a libtest listing: non-ignored and ignored tests are partitioned
    separately, each in name order"""
    ig = sorted(set(b["ignored"]))
    first = sorted(set(b["non_ignored"]) - set(ig))
    res = {}
    for nm, code in zip(first, doc_sequence(c, b, [(n, False) for n in first])):
        res[nm] = (0, code)
    for nm, code in zip(ig, doc_sequence(c, b, [(n, True) for n in ig])):
        res[nm] = (1, code)
    return [[nm, res[nm][0], res[nm][1]] for nm in sorted(res)]


CODE = {0: "selected", 1: "rejected: ignored policy", 2: "rejected: name patterns",
        3: "rejected: filtersets", 4: "rejected: partition", 5: "rejected: default filter"}


def oracle_case(c, results):
    """returns a description of the first clause of the property the implementation breaks, or None"""
    if not isinstance(results, list):
        return f"implementation error: {results}"
    for b, res in zip(c["binaries"], results):
        if isinstance(res.get("list"), dict):
            return f"listing of {b['id']} failed: {res['list']}"
        want = doc_sequence(c, b, b["calls"])
        for (nm, ign), w, g in zip(b["calls"], want, res["calls"]):
            if w != g:
                return (f"binary {b['id']}: test {nm!r} (ignored={ign}) is {CODE.get(g, g)}; the documented "
                        f"composition gives {CODE[w]}")
        wl = doc_listing(c, b)
        if wl != res["list"]:
            for w in wl:
                g = next((x for x in res["list"] if x[0] == w[0]), None)
                if g != w:
                    return (f"binary {b['id']} listing: test {w[0]!r} is {g and CODE.get(g[2], g[2])} "
                            f"(ignored={g and g[1]}); the documented composition gives {CODE[w[2]]} "
                            f"(ignored={w[1]})")
            return f"binary {b['id']} listing has unexpected entries {res['list']}"
        if res["bin"] >= 2:
            sel = [nm for (nm, _), g in zip(b["calls"], res["calls"]) if g == 0] + \
                  [x[0] for x in res["list"] if x[2] == 0]
            # would the tests be selected had the binary been listed? (they were: the harness lists
            # it regardless)
            if sel:
                return (f"binary {b['id']} is skipped without listing (reason code {res['bin']}) although "
                        f"its tests {sorted(set(sel))} are selected by the filters")
    return None


def menu_truth_problem(c, results):
    """the truth tables handed to the model must be what the documentation says the menu
    expressions mean, and each (binary, test) pair of answers must be Kleene-sound (the premise of
    C04_binary_sound)"""
    dflt = MENU_FN[c["default"]]

    def d(bb, nn):
        return dflt(bb, nn, None)
    for b, res in zip(c["binaries"], results):
        cols = [(e, col, eb) for e, col, eb in zip(c["filtersets"], res["ets"], res["ebs"])]
        cols.append((c["default"], res["dt"], res["db"]))
        for e, col, eb in cols:
            for nm, v in zip(res["names"], col):
                if bool(v) != bool(MENU_FN[e](b, nm, d)):
                    return f"{e} on ({b['id']}, {nm!r}) evaluates to {v}"
            if eb in (0, 1) and any(v != eb for v in col):
                return f"{e} on binary {b['id']}: matches_binary = Some({bool(eb)}) but matches_test = {col}"
    return None


# ------------------------------------------------------------------ CLI arguments

CLI_TOKENS = ["--exact", "--skip", "--ignored", "--include-ignored", "--", "--bogus", "-a", "---"]


def gen_cli(r):
    names = []
    while len(names) < r.randint(1, 5):
        nm = gen_name(r)
        if nm not in names:
            names.append(nm)
    ri0 = r.choice([None, None, None, None, "default", "only", "all"])
    pre = [gen_pattern(r, names) for _ in range(r.choice([0, 0, 1, 2]))]
    pre = [p for p in pre if p != ""]
    mode = r.choice(["wellformed", "wellformed", "wild"])
    args = []
    if mode == "wellformed":
        items = []
        if r.random() < 0.5:
            items.append(["--exact"])
        if r.random() < 0.3:
            items.append([r.choice(["--ignored", "--include-ignored"])])
        for _ in range(r.choice([0, 1, 1, 2, 3])):
            items.append(["--skip", gen_pattern(r, names) or "a"])
        for _ in range(r.choice([0, 0, 1, 2])):
            items.append([gen_pattern(r, names) or "b"])
        r.shuffle(items)
        args = [t for it in items for t in it]
        if r.random() < 0.2:
            args += ["--"] + [r.choice(CLI_TOKENS + names) for _ in range(r.randint(0, 3))]
    else:
        for _ in range(r.randint(0, 7)):
            args.append(r.choice(CLI_TOKENS) if r.random() < 0.6 else gen_pattern(r, names))
    calls = [[nm, r.random() < 0.3] for nm in names]
    return cli_case(ri0, pre, args, calls)


def cli_case(ri0, pre, args, calls):
    argv = (["--run-ignored", ri0] if ri0 else []) + list(pre)
    if args:
        argv += ["--"] + list(args)
    return dict(op="cli", ri0=ri0, pre=list(pre), args=list(args), argv=argv, calls=calls)


def coq_cli(c):
    ri0 = "None" if not c["ri0"] else f"(Some {RI[c['ri0']]})"
    calls = coq_list([f"({coq_str(n)}, {coq_bool(i)})" for n, i in c["calls"]])
    return (f"cli_obs {ri0} {coq_list([coq_str(s) for s in c['pre']])} "
            f"{coq_list([coq_str(s) for s in c['args']])} {calls}")


ERR = {"duplicated": 1, "missing required argument": 2, "mutually exclusive": 3, "unsupported": 4}


def canon_set(strs_):
    return sorted(set(tuple(x) for x in strs_))


def cli_impl_obs(res):
    if "err" in res:
        return [ERR.get(res["err"], 99), 0, 0, None, []]
    p = res["pats"]
    enc = lambda l: [[ord(ch) for ch in s] for s in l]
    return [0, res["ri"], 1 if p["variant"] == "patterns" else 0,
            [enc(p["subs"]), canon_set(enc(p["exacts"])), enc(p["skips"]), canon_set(enc(p["skip_exacts"]))],
            res["calls"]]


def cli_model_obs(m):
    if m[0] != 0:
        return [m[0], 0, 0, None, []]
    subs, exacts, skips, skipx = m[3]
    return [0, m[1], m[2], [subs, canon_set(exacts), skips, canon_set(skipx)], m[4]]


def cli_documented(c):
    """For a well-formed argument list, the documented meaning: (run-ignored mode, positive
    substring patterns, positive exact names, skip substrings, skip exact names); None when the
    list is outside the documented grammar (then only model and implementation are compared)."""
    args = c["args"]
    head, tail = (args[:args.index("--")], args[args.index("--") + 1:]) if "--" in args else (args, [])
    exact = head.count("--exact")
    flags = [a for a in head if a in ("--ignored", "--include-ignored")]
    if exact > 1 or len(flags) > 1 or (flags and c["ri0"]):
        return None
    pos, skips, i = [], [], 0
    while i < len(head):
        a = head[i]
        if a == "--skip":
            if i + 1 >= len(head) or head[i + 1].startswith("-"):
                return None
            skips.append(head[i + 1])
            i += 2
            continue
        if a in ("--exact", "--ignored", "--include-ignored"):
            pass
        elif a.startswith("-"):
            return None
        else:
            pos.append(a)
        i += 1
    pos += tail
    ri = c["ri0"] or ("only" if flags == ["--ignored"] else "all" if flags else "default")
    if exact:
        return ri, list(c["pre"]), pos, [], skips
    return ri, list(c["pre"]) + pos, [], skips, []


def oracle_cli(c, res):
    doc = cli_documented(c)
    if doc is None:
        return None
    if "err" in res:
        return f"well-formed arguments {c['argv']} are rejected: {res['err']}"
    ri, subs, exacts, skips, skipx = doc
    for (nm, ign), g in zip(c["calls"], res["calls"]):
        if (ri == "default" and ign) or (ri == "only" and not ign):
            w = 1
        else:
            skipped = nm in skipx or any(s in nm for s in skips)
            wanted = (not subs and not exacts) or nm in exacts or any(s in nm for s in subs)
            w = 2 if (skipped or not wanted) else 0
        if w != g:
            return (f"with arguments {c['argv']} test {nm!r} (ignored={ign}) is {CODE.get(g, g)}; "
                    f"documented: {CODE[w]}")
    return None


# ------------------------------------------------------------------ shrinking

def shrink(case, fails):
    """greedy structural shrinking of a failing case; [fails(case)] re-runs implementation + oracle"""
    def variants(c):
        if c["op"] == "cli":
            for i in range(len(c["args"])):
                yield cli_case(c["ri0"], c["pre"], c["args"][:i] + c["args"][i + 2:], c["calls"])
            for i in range(len(c["args"])):
                yield cli_case(c["ri0"], c["pre"], c["args"][:i] + c["args"][i + 1:], c["calls"])
            for i in range(len(c["pre"])):
                yield cli_case(c["ri0"], c["pre"][:i] + c["pre"][i + 1:], c["args"], c["calls"])
            for i in range(len(c["calls"])):
                yield cli_case(c["ri0"], c["pre"], c["args"], c["calls"][:i] + c["calls"][i + 1:])
            if c["ri0"]:
                yield cli_case(None, c["pre"], c["args"], c["calls"])
            return
        for i in range(len(c["binaries"])):
            if len(c["binaries"]) > 1:
                d = copy.deepcopy(c); del d["binaries"][i]; yield d
        for key in ("ops", "pre", "filtersets"):
            for i in range(len(c[key])):
                d = copy.deepcopy(c); del d[key][i]; yield d
        if c["partition"]:
            d = copy.deepcopy(c); d["partition"] = None; yield d
        if c["bound"] != "all":
            d = copy.deepcopy(c); d["bound"] = "all"; yield d
        if c["default"] != "all()":
            d = copy.deepcopy(c); d["default"] = "all()"; yield d
        if c["ri"] != "default":
            d = copy.deepcopy(c); d["ri"] = "default"; yield d
        for bi, b in enumerate(c["binaries"]):
            for key in ("calls", "non_ignored", "ignored"):
                for i in range(len(b[key])):
                    d = copy.deepcopy(c); del d["binaries"][bi][key][i]; yield d
    budget = 400
    progress = True
    while progress and budget > 0:
        progress = False
        for v in variants(case):
            budget -= 1
            if budget <= 0:
                break
            if fails(v):
                case, progress = v, True
                break
    return case


# ------------------------------------------------------------------ driver

def corpus():
    p = os.path.join(vlib.VERIF, "corpus", "C04.json")
    return json.load(open(p)) if os.path.exists(p) else []


def pattern_class(c):
    subs, exacts, skips, skipx = positives(c)
    return ("pos" if (subs or exacts) else "nopos") + ("+skip" if skips else "") + ("+skipexact" if skipx else "")


def check_cases(chk, binary, cases, stream, max_report=2):
    """run implementation, model and oracle over filter cases; returns number of model evaluations"""
    impl = vlib.run_impl(binary, "filter", cases)
    exprs, index = [], []
    broken = []
    for ci, (c, res) in enumerate(zip(cases, impl)):
        if not isinstance(res, list):
            broken.append((c, res))
            continue
        for bi, (b, rb) in enumerate(zip(c["binaries"], res)):
            if isinstance(rb.get("list"), dict):
                broken.append((c, rb["list"]))
                continue
            exprs.append(coq_case_binary(c, b, rb))
            index.append((ci, bi))
    for c, res in broken[:max_report]:
        chk.violation("counterexample", stream, dict(input=c, impl=res,
                                                     clause="the implementation fails on a well-formed input"))
    model = vlib.coq_eval("c04" + stream.replace("corr:", "").replace("-", ""), IMPORTS, exprs, PRELUDE)
    disagree = {}
    for (ci, bi), mo in zip(index, model):
        if impl_obs(impl[ci][bi]) != mo and ci not in disagree:
            disagree[ci] = (bi, mo)
    reported = 0
    for ci, (c, res) in enumerate(zip(cases, impl)):
        if not isinstance(res, list):
            continue
        chk.count(stream.replace("corr:", "") + "_cases")
        why = oracle_case(c, res)
        truth = menu_truth_problem(c, res)
        if truth and reported < max_report:
            reported += 1
            chk.violation("broken-obligation", "corr:filterset-tables",
                          dict(input=c, impl=res, clause="filterset answers are not the documented ones / "
                               "not Kleene-sound: " + truth), no_input=True)
        if why is None and ci not in disagree:
            continue
        if reported >= max_report:
            continue
        reported += 1
        if why is not None:
            def fails(v):
                rv = vlib.run_impl(binary, "filter", [v])[0]
                return oracle_case(v, rv) is not None
            small = shrink(c, fails)
            rs = vlib.run_impl(binary, "filter", [small])[0]
            chk.violation("counterexample", "oracle:selection",
                          dict(input=small, clause=oracle_case(small, rs), impl=rs,
                               model_disagrees=ci in disagree, original_input=c))
        else:
            bi, mo = disagree[ci]
            chk.violation("broken-obligation", stream,
                          dict(input=c, binary=c["binaries"][bi]["id"], impl=impl_obs(res[bi]), model=mo,
                               note="implementation and model disagree; the documented-selection oracle "
                                    "accepts the implementation's answers on this input"), no_input=True)
    return impl, len(exprs)


def default_filter_stage(chk, r, thorough):
    """which default filter applies: the profile's, unless an override that carries a default-filter matches
    the build platforms -- BOTH its host spec and its target spec (the first such override wins). Observed on the
    real `cargo nextest list --message-format json` over the scripted workspace (host = target = this machine,
    a unix), with overrides whose platform is given as a string (target only) or as a table with host and / or
    target, matching (cfg(unix)) or not (cfg(windows)); --ignore-default-filter switches the stage off."""
    import e2e
    try:
        rig = e2e.Rig()
    except RuntimeError as ex:
        chk.violation("broken-obligation", "e2e-build", dict(error=str(ex)[-2000:]), no_input=True)
        return
    names = [f"t{i}_{c}" for i, c in enumerate("abcabc")]
    scen = {"bins": {"alpha::t1": {"tests": {n: {"attempts": [{"exit": 0}]} for n in names}}}}
    specs = [("str", None, "cfg(unix)"), ("str", None, "cfg(windows)"), ("tbl", "cfg(unix)", None), ("tbl", "cfg(windows)", None),
             ("tbl", None, "cfg(windows)"), ("tbl", "cfg(windows)", "cfg(unix)"), ("tbl", "cfg(unix)", "cfg(windows)"),
             ("tbl", "cfg(unix)", "cfg(unix)")]
    cases = []
    for k, sp in enumerate(specs):
        cases.append([sp])
    for _ in range(30 if thorough else 6):
        cases.append([r.choice(specs) for _ in range(r.choice([2, 2, 3]))])
    letters = "abc"
    for ci, ovs in enumerate(cases):
        prof = f"df{os.getpid()}x{ci}"
        lines = [f"[profile.{prof}]", 'default-filter = "test(_a)"']
        want = "_a"
        chosen = None
        for oi, (form, host, target) in enumerate(ovs):
            letter = letters[(oi + 1) % 3]
            lines.append(f"[[profile.{prof}.overrides]]")
            if form == "str":
                lines.append(f"platform = '{target}'")
            elif form == "tbl":
                parts = ([f'host = "{host}"'] if host else []) + ([f'target = "{target}"'] if target else [])
                lines.append("platform = { " + ", ".join(parts) + " }")
            lines.append(f'default-filter = "test(_{letter})"')
            ok = (host in (None, "cfg(unix)")) and (target in (None, "cfg(unix)"))
            if ok and chosen is None:
                chosen, want = oi, "_" + letter
        cfg = "\n".join(lines) + "\n"
        for ignore in (False, True):
            res = rig.run(scen, cfg, args=["--profile", prof, "--message-format", "json"] +
                          (["--ignore-default-filter"] if ignore else []), subcommand="list", timeout=60)
            chk.count("default_filter_listings")
            try:
                suites = json.loads(res["stdout"])["rust-suites"]
                got = {n: t["filter-match"]["status"] == "matches"
                       for su in suites.values() for n, t in su["testcases"].items()}
            except (ValueError, KeyError) as ex:
                chk.violation("broken-obligation", "default-filter-stage",
                              dict(config=cfg, rc=res["rc"], stderr=res["stderr"][-800:], error=str(ex)), no_input=True)
                rig.cleanup(res)
                return
            rig.cleanup(res)
            exp = {n: (True if ignore else want in n) for n in names}
            if got != exp:
                chk.violation("counterexample", "oracle:default-filter-source", dict(
                    input=dict(config=cfg, ignore_default_filter=ignore), selected=sorted(n for n in got if got[n]),
                    documented=sorted(n for n in exp if exp[n]),
                    clause="a test is in the default filter unless that is disabled; the default filter is the one of the first "
                           "override carrying a default-filter whose host AND target platform specs match the build, else "
                           "the profile's"))
                return


def run(tier, seed):
    chk = vlib.Check(PROP, tier, seed)
    gate = vlib.coq_gate(PROP)
    vlib.gate_or_violation(chk, gate)
    # DESIGN 11.7: these decision functions are regenerated from the Rust source and proved equal to the
    # model's for all inputs; a failure is reported when the check finishes unless a stage below finds a
    # concrete failing input
    gen_tie.gate(chk, ['logic_or', 'logic_and', 'prefer_expression', 'from_result', 'is_match', 'filter_ignored_mismatch',
                         'filter_match'], gate)
    # fourth round: the whole of filter_match with its sub-stages translated (glue family; same target name)
    gen_tie.gate(chk, ['filter_match'], gate, family="glue")
    binary, err = vlib.build_harness()
    if binary is None:
        chk.violation("broken-obligation", "harness-build", dict(error=err), no_input=True)
        return chk.finish(gate, "make -C coq Properties/C04.vo", [])
    r = vlib.rng_for(seed, PROP)
    thorough = tier == "thorough"
    evaluations = 0
    default_filter_stage(chk, vlib.rng_for(seed, PROP + ":default-filter"), thorough)

    # ---- corr:filter-case: corpus first, then generated
    cor = corpus()
    cases = [c for c in cor if c.get("op") == "case"]
    ncases = 40000 if thorough else 3000
    while len(cases) < ncases:
        cases.append(gen_case(r))
    impl, n = check_cases(chk, binary, cases, "corr:filter-case")
    evaluations += n
    distinct = set()
    for c, res in zip(cases, impl):
        chk.count(f"ri={c['ri']}")
        chk.count(f"bound={c['bound']}")
        chk.count(f"partition={c['partition']['kind'] if c['partition'] else 'none'}")
        chk.count(f"patterns={pattern_class(c)}")
        chk.count(f"filtersets={len(c['filtersets'])}")
        chk.count(f"default={'all()' if c['default'] == 'all()' else 'other'}")
        chk.count(f"binaries={len(c['binaries'])}")
        if isinstance(res, list):
            for rb in res:
                chk.count(f"binary_verdict={['definite', 'possible', 'mismatch-expression', 'mismatch-default'][rb['bin']]}")
                for code in rb["calls"]:
                    chk.count(f"test_verdict={code}")
        ntests = sum(len(b["calls"]) for b in c["binaries"])
        if ntests >= 2 and (c["ops"] or c["pre"] or c["filtersets"] or c["default"] != "all()"):
            distinct.add(json.dumps(c, sort_keys=True))
    chk.sample(dict(filter_case=cases[len(cor)] if len(cases) > len(cor) else cases[0],
                    impl=impl[len(cor)] if len(cases) > len(cor) else impl[0]))

    # ---- corr:binary-table (exhaustive)
    tcases = binary_table_cases()
    timpl, n = check_cases(chk, binary, tcases, "corr:binary-table")
    evaluations += n
    chk.sample(dict(binary_table_case=dict(filtersets=tcases[50]["filtersets"], default=tcases[50]["default"],
                                           bound=tcases[50]["bound"]), binary_verdict=timpl[50][0]["bin"]))

    # ---- corr:cli-args
    clis = [c for c in cor if c.get("op") == "cli"]
    clis.append(cli_case(None, [], ["--exact", "--skip", "beta"], [["alpha", False], ["beta", False]]))
    clis.append(cli_case(None, ["foo"], ["--ignored", "--", "str", "---", "--ignored"], [["foo", True], ["str", True]]))
    ncli = 20000 if thorough else 1500
    while len(clis) < ncli:
        clis.append(gen_cli(r))
    cimpl = vlib.run_impl(binary, "filter", clis)
    cmodel = vlib.coq_eval("c04cli", IMPORTS, [coq_cli(c) for c in clis], PRELUDE)
    evaluations += len(clis)
    reported = 0
    for c, res, mo in zip(clis, cimpl, cmodel):
        chk.count("cli_cases")
        chk.count("cli_" + ("error=" + res["err"] if "err" in res else "ok"))
        doc = cli_documented(c)
        chk.count("cli_documented_grammar" if doc else "cli_outside_grammar")
        if "err" not in res:
            distinct.add(json.dumps([c["argv"], c["calls"]]))
        if res.get("err") in ("clap", "other"):
            if reported < 2:
                reported += 1
                chk.violation("broken-obligation", "corr:cli-args",
                              dict(input=c, impl=res, note="the command line was not accepted by clap"), no_input=True)
            continue
        why = oracle_cli(c, res)
        differs = cli_impl_obs(res) != cli_model_obs(mo)
        if (why or differs) and reported < 2:
            reported += 1
            if why:
                def fails(v):
                    rv = vlib.run_impl(binary, "filter", [v])[0]
                    return oracle_cli(v, rv) is not None
                small = shrink(c, fails)
                rs = vlib.run_impl(binary, "filter", [small])[0]
                chk.violation("counterexample", "oracle:cli-args",
                              dict(input=small, clause=oracle_cli(small, rs), impl=rs, model_disagrees=differs,
                                   original_input=c))
            else:
                chk.violation("broken-obligation", "corr:cli-args",
                              dict(input=c, impl=cli_impl_obs(res), model=cli_model_obs(mo),
                                   note="implementation and model disagree; the documented-arguments oracle "
                                        "accepts (or does not cover) this input"), no_input=True)
    chk.sample(dict(cli_case=clis[len(clis) // 2]["argv"], impl=cimpl[len(clis) // 2]))

    chk.assumptions = [
        "the filterset language is abstract in the model: per binary, matches_test / matches_binary of each "
        "filterset are truth tables obtained from the real evaluator for the case (and compared with the "
        "documented meaning of the menu expressions); C04_binary_sound assumes each pair Kleene-sound, which is "
        "checked on every table",
        "Aho-Corasick substring search is the specification-level is_infix; HashSet is a list (membership only)",
        "TestFilterPatterns::resolve is modelled as total (automaton construction does not fail)",
        "TestList::new's choice between process_output and process_skipped is mirrored by list_binary; the "
        "harness composes filter_binary_match with process_output (hook H4) the same way",
    ]
    return chk.finish(
        gate, "make -C coq Properties/C04.vo && coqc gen/assump_C04.v (Print Assumptions)",
        ["Coq 8.16.1 kernel + vm_compute",
         "hand-written model Model/{NameFilter,FilterFull,CliArgs,Filter,Partition}.v tied by corr:filter-case, "
         "corr:binary-table, corr:cli-args (hooks H4, H8)",
         "Python generators/canonicalisers/oracle in props/C04.py", "harness/src/filter.rs"],
        dict(evaluations=evaluations, distinct_nontrivial=len(distinct),
             rule="filter case = (run-ignored, partition, pattern operations, filtersets, default filter, bound, "
                  "1-4 binaries with their test names / ignored flags / call order / listings); non-trivial = at "
                  "least 2 tests and at least one pattern, filterset or non-trivial default filter; CLI case = "
                  "(argv, tests) accepted by the argument merge; distinct by the whole tuple",
             traces_validated_against_impl=evaluations))


def replay(path, seed):
    d = json.load(open(path))
    print(json.dumps(d, indent=1)[:4000])
    binary, err = vlib.build_harness()
    if binary is None:
        print("harness build failed:", err)
        return 1
    inp = d.get("input")
    if not isinstance(inp, dict) or inp.get("op") not in ("case", "cli"):
        return 0
    res = vlib.run_impl(binary, "filter", [inp])[0]
    print("implementation:", json.dumps(res))
    if inp["op"] == "cli":
        why = oracle_cli(inp, res)
        mo = vlib.coq_eval("c04r", IMPORTS, [coq_cli(inp)], PRELUDE)[0]
        print("model:", cli_model_obs(mo), "agrees" if cli_model_obs(mo) == cli_impl_obs(res) else "DISAGREES")
    else:
        why = oracle_case(inp, res)
        if isinstance(res, list):
            for b, rb in zip(inp["binaries"], res):
                mo = vlib.coq_eval("c04r", IMPORTS, [coq_case_binary(inp, b, rb)], PRELUDE)[0]
                print("model:", b["id"], mo, "agrees" if mo == impl_obs(rb) else "DISAGREES")
    print("oracle:", why or "accepts")
    return 1 if why else 0
