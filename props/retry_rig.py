"""A miniature in-process rig shared by C07 and C03: the real nextest TestRunner (public API,
direct spawn) is run by the harness (`backoff` module, op "run") over *scripted* test binaries —
shell scripts that list the tests a scenario names and, per attempt, exit with a code / die by a
signal / sleep / leave a descendant holding stdout, appending a ground-truth line to a log.
It complements, and does not replace, the coordinator's end-to-end rig (no cargo-nextest binary,
no signals to nextest, no double-spawn launcher)."""
import json, os, shutil, stat
import vlib

RIG = os.path.join(vlib.CACHE, "rig")

MAIN = r"""#!/bin/sh
self="$0"
if [ "$1" = "--list" ]; then
  case " $* " in *" --ignored "*) exit 0;; esac
  cat "$self.list"; exit 0
fi
name="$2"
k="${__NEXTEST_ATTEMPT:-1}"
RIG_LOG="$self.log"; RIG_NAME="$name"; RIG_K="$k"; export RIG_LOG RIG_NAME RIG_K
echo "S $name $k $(date +%s%N)" >> "$RIG_LOG"
if [ -f "$self.$name.$k" ]; then exec sh "$self.$name.$k"; fi
exec sh "$self.$name.default"
"""

END = 'echo "E $RIG_NAME $RIG_K $(date +%s%N)" >> "$RIG_LOG"\n'


def behaviour_script(b):
    """b: dict(kind='exit', code) | dict(kind='signal', sig) | dict(kind='hold', code, hold_ms)
    | dict(kind='writer', code, period_ms, total_ms) | dict(kind='sleep', ms, code)"""
    if b["kind"] == "exit":
        return END + f"exit {b['code']}\n"
    if b["kind"] == "signal":
        return "ulimit -c 0\n" + END + f"kill -{b['sig']} $$\nsleep 2\nexit 3\n"
    if b["kind"] == "hold":      # a descendant keeps stdout/stderr open for hold_ms after the exit
        # own_session: the descendant is a daemon that has left the test's process group (setsid)
        pre = "setsid " if b.get("own_session") else ""
        return END + f"{pre}sleep {b['hold_ms'] / 1000:.3f} &\nexit {b['code']}\n"
    if b["kind"] == "writer":    # a descendant writes to stdout every period_ms for total_ms after the exit
        n = b["total_ms"] // b["period_ms"]
        return END + (f"( i=0; while [ $i -lt {n} ]; do echo tick; sleep {b['period_ms'] / 1000:.3f}; "
                      f"i=$((i+1)); done ) &\nexit {b['code']}\n")
    if b["kind"] == "sleep":
        return f"sleep {b['ms'] / 1000:.3f}\n" + END + f"exit {b['code']}\n"
    raise ValueError(b)


def policy_toml(p):
    if p is None:
        return None
    ns = lambda v: f'"{v}ns"'
    if p["kind"] == "fixed":
        return ('{ backoff = "fixed", count = %d, delay = %s, jitter = %s }'
                % (p["count"], ns(p["delay"]), "true" if p["jitter"] else "false"))
    s = ('{ backoff = "exponential", count = %d, delay = %s, jitter = %s'
         % (p["count"], ns(p["delay"]), "true" if p["jitter"] else "false"))
    if p.get("max_delay") is not None:
        s += f", max-delay = {ns(p['max_delay'])}"
    return s + " }"


def prepare(tag, scenario):
    """scenario: dict(profile_retries=policy|None, leak_timeout_ms, slow_period_ms|None,
    bins={bin: {test: dict(policy=policy|None, attempts={k: behaviour}, default=behaviour)}},
    chmod_after_list=[bin], force=policy|None). Returns the harness case."""
    d = os.path.join(RIG, tag)
    shutil.rmtree(d, ignore_errors=True)
    os.makedirs(os.path.join(d, ".config"))
    cfg = ["[profile.default]", "fail-fast = false",
           f'leak-timeout = "{scenario.get("leak_timeout_ms", 150)}ms"']
    if scenario.get("slow_period_ms"):
        cfg.append('slow-timeout = { period = "%dms", terminate-after = 1, grace-period = "0s" }'
                   % scenario["slow_period_ms"])
    prof = scenario.get("profile_name", "default")
    if prof != "default":
        # the run selects `prof` (a custom profile, or the built-in default-miri): the profile-level policy is
        # the selected profile's own; the default profile carries a different one that must not be used
        if scenario.get("profile_retries") is not None:
            cfg.append("retries = " + policy_toml(dict(kind="fixed", count=scenario["profile_retries"]["count"] + 2,
                                                       delay=0, jitter=False)))
        cfg.append(f"[profile.{prof}]")
    if scenario.get("profile_retries") is not None:
        cfg.append("retries = " + policy_toml(scenario["profile_retries"]))
    for b, tests in scenario["bins"].items():
        path = os.path.join(d, b)
        open(path, "w").write(MAIN)
        os.chmod(path, os.stat(path).st_mode | stat.S_IXUSR | stat.S_IXGRP | stat.S_IXOTH)
        open(path + ".list", "w").write("".join(f"{t}: test\n" for t in tests))
        open(path + ".log", "w").close()
        for t, spec in tests.items():
            open(f"{path}.{t}.default", "w").write(behaviour_script(spec["default"]))
            for k, beh in spec.get("attempts", {}).items():
                open(f"{path}.{t}.{k}", "w").write(behaviour_script(beh))
            if spec.get("policy") is not None:
                cfg += ["", f"[[profile.{prof}.overrides]]", f"filter = 'test(={t})'",
                        "retries = " + policy_toml(spec["policy"])]
    open(os.path.join(d, ".config", "nextest.toml"), "w").write("\n".join(cfg) + "\n")
    f = scenario.get("force")
    return dict(op="run", dir=d, bins=list(scenario["bins"]), threads=scenario.get("threads", 4), profile=prof,
                chmod_after_list=scenario.get("chmod_after_list", []),
                force_retries=None if f is None else dict(
                    kind=f["kind"], count=f["count"], delay=str(f["delay"]), jitter=f["jitter"],
                    max_delay=None if f.get("max_delay") is None else str(f["max_delay"])))


def read_log(case, b):
    """ground truth: {test: [(attempt, start_ns, end_ns|None)]} in invocation order"""
    out = {}
    ends = {}
    rows = []
    for line in open(os.path.join(case["dir"], b + ".log")):
        parts = line.split()
        if len(parts) != 4:
            continue
        kind, name, k, t = parts
        if kind == "S":
            rows.append((name, int(k), int(t)))
        else:
            ends[(name, int(k))] = int(t)
    for name, k, t in rows:
        out.setdefault(name, []).append((k, t, ends.get((name, k))))
    return out


def per_test(result):
    """harness result -> {(bin, test): dict(finished=event|None, will_retry=[...], retry_started=[...])}"""
    out = {}
    for e in result.get("events", []):
        rec = out.setdefault((e["bin"], e["test"]), dict(finished=None, will_retry=[], retry_started=[]))
        if e["ev"] == "finished":
            rec["finished"] = e
        else:
            rec[e["ev"]].append(e)
    return out


def cleanup(tag):
    shutil.rmtree(os.path.join(RIG, tag), ignore_errors=True)
