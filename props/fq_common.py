"""Shared by props/C08.py and props/C14.py: schedule generators for the future-queue correspondence
(corr:future-queue), translation of the implementation's poll log into model operations, the
model-side Coq expressions, the diff, and the property oracle (plain Python, independent of the
Coq model) that replays the implementation's own start/complete log."""
import itertools, json, re
import vlib
from vlib import coq_list

IMPORTS = ["Base.Str", "Model.FutureQueue"]
PRELUDE = """
Fixpoint run_ops (q : fq) (ops : list op) : list (list (list N)) :=
  match ops with
  | [] => []
  | o :: r =>
      let res := fq_step q o in
      (map enc_event (snd res) ++
       [[9; gcur (fst res); N.of_nat (length (running (fst res)));
         N.of_nat (length (unstarted (fst res))); if panicked (fst res) then 1 else 0]])
      :: run_ops (fst res) r
  end.
"""

F7_CASE = dict(op="run", gmax=3, groups=[[0, 2]], items=[[1, 0, 0], [2, 0, 0], [2, None, 0]],
               script=[[[0, 0]], [[2, 99]]], tag="F7-witness")
F7_WHAT = ("a started-and-completed run leaves a test of a group unstarted: future-queue 0.4.0 "
           "drains a group's queue only when a member of that group completes (F7; witness "
           "test-threads=3, group max-threads=2, a(g,1) b(g,2) c(-,2), a completes before c: b never starts)")


# ------------------------------------------------------------------------------- generators

def gen_case(r, tag="random"):
    ngroups = r.choice([0, 0, 1, 1, 2, 3])
    gmax = r.choice([1, 1, 2, 2, 3, 3, 4, 5, 6])
    groups = [[k, r.choice([1, 1, 2, 2, 3, 4, 5, 6])] for k in range(ngroups)]
    n = r.randint(1, 12)
    wmode = r.choice(["ones", "small", "mixed", "mixed", "big"])
    items = []
    any_imm = r.random() < 0.15
    for _ in range(n):
        if wmode == "ones":
            w = 1
        elif wmode == "small":
            w = r.choice([1, 1, 2])
        elif wmode == "big":
            w = r.choice([3, 4, 5])
        else:
            w = r.choice([1, 1, 2, 2, 3, 4, 5])
        g = r.choice([None] + [k for k, _ in groups]) if groups and r.random() < 0.7 else None
        items.append([w, g, 1 if any_imm and r.random() < 0.3 else 0])
    kind = r.choice(["random", "random", "fifo", "lifo", "group-first", "batches"])
    script = []
    for _ in range(n + 2):
        if kind == "fifo":
            script.append([[0, 0]])
        elif kind == "lifo":
            script.append([[1, 0]])
        elif kind == "group-first" and groups:
            script.append([[2, r.choice(groups)[0]]])
        elif kind == "batches":
            script.append([[0, r.randint(0, 11)] for _ in range(r.randint(1, 3))])
        else:
            script.append([[0, r.randint(0, 11)]])
    return dict(op="run", gmax=gmax, groups=groups, items=items, script=script,
                tag=f"{tag}:{kind}:{wmode}")


def gen_f7_like(r):
    """tight global limit, one or two groups with members of different weights, heavy ungrouped items"""
    gmax = r.choice([2, 3, 3, 4])
    groups = [[k, r.choice([2, 2, 3])] for k in range(r.choice([1, 1, 2]))]
    items = []
    for _ in range(r.randint(3, 8)):
        if r.random() < 0.6:
            k, m = r.choice(groups)
            items.append([r.randint(1, m), k, 0])
        else:
            items.append([r.randint(1, gmax), None, 0])
    script = [[[r.choice([0, 0, 2]), r.randint(0, 11)]] for _ in range(len(items) + 1)]
    return dict(op="run", gmax=gmax, groups=groups, items=items, script=script, tag="random-f7like")


def directed_cases():
    out = [dict(F7_CASE)]
    # F7 completed in the other order: b does start
    out.append(dict(op="run", gmax=3, groups=[[0, 2]], items=[[1, 0, 0], [2, 0, 0], [2, None, 0]],
                    script=[[[1, 0]], [[0, 0]]], tag="F7-other-order"))
    # weights above the limits
    out.append(dict(op="run", gmax=2, groups=[[0, 1]], items=[[5, None, 0], [9, 0, 0], [1, 0, 0], [3, None, 0]],
                    script=[], tag="cap"))
    # serial
    out.append(dict(op="run", gmax=1, groups=[[0, 1], [1, 3]],
                    items=[[1, 0, 0], [2, 1, 0], [5, None, 0], [1, 0, 0], [1, 1, 0]], script=[], tag="serial"))
    # slot reuse out of order
    out.append(dict(op="run", gmax=4, groups=[[0, 3]], items=[[1, 0, 0]] * 3 + [[1, None, 0]] * 5,
                    script=[[[0, 2]], [[0, 1]], [[1, 0]], [[0, 0], [0, 1]]], tag="reuse"))
    # futures ready within the poll that created them (pop without fill)
    out.append(dict(op="run", gmax=2, groups=[], items=[[1, None, 1], [1, None, 1], [1, None, 0], [5, None, 0], [1, None, 0]],
                    script=[[[0, 0], [0, 0]]], tag="imm"))
    out.append(dict(op="run", gmax=3, groups=[[0, 1]], items=[[1, 0, 1], [1, 0, 0], [1, 0, 1], [2, None, 0]],
                    script=[], tag="imm-group"))
    # unknown group: the crate panics
    out.append(dict(op="run", gmax=2, groups=[[0, 2]], items=[[1, 0, 0], [1, 7, 0], [1, None, 0]],
                    script=[], tag="unknown-group"))
    # weight zero, limit zero (not reachable through nextest's config; the queue accepts them)
    out.append(dict(op="run", gmax=2, groups=[[0, 1]], items=[[0, 0, 0], [0, 0, 0], [1, 0, 0], [0, None, 0], [2, None, 0]],
                    script=[], tag="weight-zero"))
    return out


def exhaustive_cases(max_items=3):
    """every configuration with limits in {1,2}, one optional group with max in {1,2}, up to
    max_items items of weight 1..2 (3 only without a group), every completion order"""
    out = []
    for gmax in (1, 2):
        for gm in (None, 1, 2):
            opts = [(w, g) for w in (1, 2) for g in ((None, 0) if gm is not None else (None,))]
            if gm is None:
                opts.append((3, None))
            for n in range(1, max_items + 1):
                for combo in itertools.product(opts, repeat=n):
                    if gm is not None and all(g is None for _, g in combo):
                        continue
                    for choice in itertools.product((0, 1), repeat=max(0, n - 1)):
                        out.append(dict(op="run", gmax=gmax, groups=[[0, gm]] if gm is not None else [],
                                        items=[[w, g, 0] for w, g in combo],
                                        script=[[[0, c]] for c in choice], tag="exhaustive"))
    return out


# ------------------------------------------------------------------------------- log -> ops

def segments(log):
    segs, cur = [], None
    for e in log:
        if e[0] == "p":
            cur = []
            segs.append(cur)
        else:
            if cur is None:
                cur = []
                segs.append(cur)
            cur.append(e)
    return segs


def derive_ops(log):
    """the model operations that explain each poll of the implementation, per DESIGN/Model header:
    a poll that finds nothing in progress fills (and may pop a future that is ready at once,
    without a second fill); a poll that pops a completed future drains its group and fills; a
    poll that finds futures in progress but none ready does nothing.
    Returns (ops, per-segment list of (op indices, segment), problem or None)."""
    ops, per, running = [], [], 0
    for seg in segments(log):
        comp = [e[1] for e in seg if e[0] == "o"]
        nst = len([e for e in seg if e[0] == "s"])
        panic = any(e[0] == "x" for e in seg)
        idx = []
        if running == 0:
            idx.append(len(ops)); ops.append(("fill",))
            if comp:
                idx.append(len(ops)); ops.append(("complete_nofill", comp[0]))
        elif comp:
            idx.append(len(ops)); ops.append(("complete", comp[0]))
        elif nst or panic:
            return ops, per, "futures were started (or the queue panicked) in a poll that popped no completed future although futures were in progress"
        if len(comp) > 1:
            return ops, per, "one poll returned two outputs"
        per.append((idx, seg))
        running += nst - len(comp)
    return ops, per, None


def coq_case(case, ops):
    def item(i, it):
        g = "None" if it[1] is None else f"(Some {it[1]})"
        return f"mkitem {i} {it[0]} {g}"
    def op(o):
        return {"fill": "OpFill", "complete": f"OpComplete {o[1] if len(o) > 1 else 0}",
                "complete_nofill": f"OpCompleteNoFill {o[1] if len(o) > 1 else 0}"}[o[0]]
    return (f"run_ops (fq_new {case['gmax']} {coq_list([f'({k}, {m})' for k, m in case['groups']])} "
            f"{coq_list([item(i, it) for i, it in enumerate(case['items'])])}) "
            f"{coq_list([op(o) for o in ops])}")


def diff_case(case, impl, ops, per, model):
    """compare, poll by poll, starts (item, global slot, group slot) in order, the completion, the
    crate's own weight counter, panics, and the way the stream ended. Returns None or a dict."""
    last_state = None
    for k, (idx, seg) in enumerate(per):
        m_events = [e for i in idx for e in model[i][:-1]]
        if idx:
            last_state = model[idx[-1]][-1]
        i_starts = [[e[1], e[2], e[3]] for e in seg if e[0] == "s"]
        m_starts = [[e[1], e[2], e[3] - 1] for e in m_events if e[0] == 1]
        i_done = [e[1] for e in seg if e[0] == "o"]
        m_done = [e[1] for e in m_events if e[0] == 2]
        i_panic = [e[1] for e in seg if e[0] == "x"]
        m_panic = any(e[0] == 3 for e in m_events)
        if i_starts != m_starts:
            return dict(poll=k, what="starts differ", impl=i_starts, model=m_starts)
        if i_done != m_done:
            return dict(poll=k, what="completions differ", impl=i_done, model=m_done)
        unknown = any("unknown semaphore ID" in m for m in i_panic)
        if unknown != m_panic:
            return dict(poll=k, what="panic on unknown group differs", impl=i_panic, model=m_panic)
        for e in seg:
            if e[0] == "w" and last_state is not None and e[1] != last_state[1]:
                return dict(poll=k, what="current_global_weight differs", impl=e[1], model=last_state[1])
    out = impl["outcome"]
    if last_state is None:
        return dict(what="no poll explained", impl=out)
    _, gcur, nrun, unst, pan = last_state
    if out == "end":
        # a release build ends silently with stranded futures (F7); accept both shapes
        if nrun != 0 or pan:
            return dict(what="stream ended but the model still has futures in progress", model=last_state)
    elif "no futures should be left" in out:
        m = re.search(r"left: (\d+)", out)
        if nrun != 0 or pan or unst == 0 or (m and int(m.group(1)) != unst):
            return dict(what="debug assertion about stranded futures not explained by the model",
                        impl=out, model=last_state)
    elif "unknown semaphore ID" in out:
        if not pan:
            return dict(what="crate panicked on an unknown group, model did not", model=last_state)
    else:
        return dict(what="unexpected outcome", impl=out, model=last_state)
    return None


# ------------------------------------------------------------------------------- oracle

def least_free(held):
    s = 0
    while s in held:
        s += 1
    return s


def oracle(case, impl):
    """Replays the implementation's own log. Returns a list of (clause_tag, text); tags:
    'limit' 'serial' 'order' (C08), 'unique' 'least' 'bounded' 'shape' (C14), 'protocol',
    'liveness' (C02/F7)."""
    gmax = case["gmax"]
    gm = {k: m for k, m in reversed(case["groups"])}   # first entry of a key counts
    items = case["items"]
    fails = []
    running, started, completed = {}, [], []
    all_pos = all(it[0] >= 1 for it in items)
    for e in impl["log"]:
        if e[0] == "s":
            _, i, gs, grs = e
            if i in started:
                fails.append(("protocol", f"item {i} started twice"))
                continue
            w, g = items[i][0], items[i][1]
            if (g is None) != (grs == -1):
                fails.append(("shape", f"item {i} group={g} but group slot {grs}"))
            held = {v[2] for v in running.values()}
            if gs in held:
                fails.append(("unique", f"item {i} got global slot {gs} held by a running test"))
            elif gs != least_free(held):
                fails.append(("least", f"item {i} got global slot {gs}, least free is {least_free(held)}"))
            if g is not None and grs != -1:
                gheld = {v[3] for v in running.values() if v[1] == g}
                if grs in gheld:
                    fails.append(("unique", f"item {i} got slot {grs} of group {g} held by a running test"))
                elif grs != least_free(gheld):
                    fails.append(("least", f"item {i} got slot {grs} of group {g}, least free is {least_free(gheld)}"))
            running[i] = (w, g, gs, grs)
            started.append(i)
            load = sum(min(v[0], gmax) for v in running.values())
            if load > gmax:
                fails.append(("limit", f"after starting {i}: sum of capped threads-required {load} > test-threads {gmax}"))
            if g is not None and g in gm:
                gl = sum(min(v[0], gm[g]) for v in running.values() if v[1] == g)
                if gl > gm[g]:
                    fails.append(("limit", f"after starting {i}: group {g} load {gl} > max-threads {gm[g]}"))
            if all_pos and gmax >= 1:
                if gs >= gmax:
                    fails.append(("bounded", f"global slot {gs} >= test-threads {gmax}"))
                if g is not None and g in gm and gm[g] >= 1 and grs >= gm[g]:
                    fails.append(("bounded", f"slot {grs} of group {g} >= max-threads {gm[g]}"))
                if gmax == 1 and len(running) > 1:
                    fails.append(("serial", f"{sorted(running)} run at once with test-threads = 1"))
        elif e[0] == "c":
            if e[1] not in running:
                fails.append(("protocol", f"item {e[1]} completed while not running"))
            running.pop(e[1], None)
            completed.append(e[1])
        elif e[0] == "w":
            load = sum(min(v[0], gmax) for v in running.values())
            if e[1] != load:
                fails.append(("limit", f"the queue's weight counter {e[1]} differs from the sum {load} over running tests"))
    ungrouped = [i for i in started if items[i][1] is None]
    if ungrouped != sorted(ungrouped):
        fails.append(("order", f"tests without a group started out of stream order: {ungrouped}"))
    if gmax == 1 and started != sorted(started):
        fails.append(("order", f"serial start order {started} is not the stream order"))
    if gmax == 1 and started != list(range(len(started))):
        fails.append(("order", f"serial start order {started} skips a test"))
    ended = impl["outcome"] == "end" or "no futures should be left" in impl["outcome"]
    if ended and not running:
        missing = [i for i in range(len(items)) if i not in started]
        if missing:
            fails.append(("liveness", f"run complete, never cancelled, tests {missing} never started"))
    elif impl["outcome"] == "stuck":
        fails.append(("liveness", "the stream neither ended nor made progress"))
    return fails


def non_uniform_groups(case):
    """class of F7: some group has two members with different threads-required"""
    seen = {}
    for w, g, _ in case["items"]:
        if g is not None:
            seen.setdefault(g, set()).add(w)
    return any(len(v) > 1 for v in seen.values())


def f7_shape(case, impl):
    """the listed failure: only grouped tests are left unstarted, in a run that completed"""
    started = {e[1] for e in impl["log"] if e[0] == "s"}
    missing = [i for i in range(len(case["items"])) if i not in started]
    return bool(missing) and all(case["items"][i][1] is not None for i in missing)


def f7_listed():
    return any(f.get("id") == "F7" and f.get("property") in ("C08", "C02")
               for f in vlib.known_findings().get("findings", []))


def describe(case):
    return dict(gmax=case["gmax"], groups=case["groups"], items=case["items"], script=case["script"],
                tag=case.get("tag"))


def run_schedules(chk, binary, cases, tag):
    """runs implementation and model on the cases; returns list of dict(case, impl, ops, per,
    model, problem, diff)"""
    impl = vlib.run_impl(binary, "fq", [{k: v for k, v in c.items() if k != "tag"} for c in cases])
    rows, exprs = [], []
    for c, i in zip(cases, impl):
        if "log" not in i:
            rows.append(dict(case=c, impl=i, ops=[], per=[], problem="harness returned no log"))
            exprs.append("run_ops (fq_new 1 [] []) []")
            continue
        ops, per, problem = derive_ops(i["log"])
        rows.append(dict(case=c, impl=i, ops=ops, per=per, problem=problem))
        exprs.append(coq_case(c, ops))
    # batches keep the peak memory of the parallel coqc runs bounded on a loaded machine
    model = []
    for k in range(0, len(exprs), 6000):
        model.extend(vlib.coq_eval(tag, IMPORTS, exprs[k:k + 6000], PRELUDE))
    for row, m in zip(rows, model):
        row["model"] = m
        row["diff"] = None
        if row["problem"] is None:
            row["diff"] = diff_case(row["case"], row["impl"], row["ops"], row["per"], m)
    return rows


def shrink(binary, case, pred, budget=60):
    """greedy shrink of a failing schedule: drop items / groups / script steps while pred(case,
    impl) still holds"""
    def run(c):
        return vlib.run_impl(binary, "fq", [{k: v for k, v in c.items() if k != "tag"}])[0]
    cur = json.loads(json.dumps(case))
    changed = True
    while changed and budget > 0:
        changed = False
        cands = []
        for i in range(len(cur["items"])):
            c = json.loads(json.dumps(cur)); del c["items"][i]; cands.append(c)
        for i in range(len(cur["script"])):
            c = json.loads(json.dumps(cur)); del c["script"][i]; cands.append(c)
        for i in range(len(cur["items"])):
            if cur["items"][i][0] > 1:
                c = json.loads(json.dumps(cur)); c["items"][i][0] -= 1; cands.append(c)
        for c in cands:
            budget -= 1
            if budget <= 0 or not c["items"]:
                break
            try:
                i = run(c)
            except Exception:
                continue
            if "log" in i and pred(c, i):
                cur, changed = c, True
                break
    return cur


def schedule_cases(r, thorough, prop_corpus):
    cases = directed_cases() + prop_corpus
    for _ in range(30000 if thorough else 450):
        cases.append(gen_f7_like(r) if r.random() < 0.15 else gen_case(r))
    if thorough:
        cases += exhaustive_cases(4)
    return cases


def search_around(binary, r, case, tags, n):
    """directed search near a case on which model and implementation disagree for an input on
    which the property oracle itself fails"""
    cands = []
    for _ in range(n):
        c = json.loads(json.dumps(case))
        for it in c["items"]:
            if r.random() < 0.3:
                it[0] = max(1, it[0] + r.choice([-1, 1]))
        c["script"] = [[[0, r.randint(0, 11)]] for _ in range(len(c["items"]) + 1)]
        cands.append(c)
    impl = vlib.run_impl(binary, "fq", [{k: v for k, v in c.items() if k != "tag"} for c in cands])
    for c, i in zip(cands, impl):
        if "log" in i:
            f = [x for x in oracle(c, i) if x[0] in tags]
            if f:
                return c, i, f
    return None


def judge(chk, binary, r, rows, tags, thorough, liveness):
    """decide per DESIGN section 3 on the rows of corr:future-queue"""
    distinct, validated = set(), 0
    reported_corr = reported_orc = False
    for row in rows:
        c, i = row["case"], row["impl"]
        chk.count("schedule_cases")
        chk.count("schedules_" + c.get("tag", "?").split(":")[0])
        if "log" not in i:
            chk.violation("broken-obligation", "corr:future-queue", dict(input=describe(c), impl=i), no_input=True)
            continue
        validated += 1
        chk.count(f"schedule_items={min(len(c['items']), 12)}")
        chk.count(f"schedule_groups={len(c['groups'])}")
        if any(it[0] > c["gmax"] for it in c["items"]):
            chk.count("schedules_with_weight_above_limit")
        if len(c["items"]) >= 2:
            distinct.add(json.dumps([c["gmax"], c["groups"], c["items"], [e for e in i["log"] if e[0] == "c"]]))
        fails = oracle(c, i)
        mine = [f for f in fails if f[0] in tags]
        live = [f for f in fails if f[0] == "liveness"]
        if mine and not reported_orc:
            reported_orc = True
            small = shrink(binary, c, lambda cc, ii: any(f[0] in tags for f in oracle(cc, ii)))
            si = vlib.run_impl(binary, "fq", [{k: v for k, v in small.items() if k != "tag"}])[0]
            chk.violation("counterexample", "oracle:" + mine[0][0],
                          dict(input=describe(small), clause=[f[1] for f in oracle(small, si) if f[0] in tags],
                               impl=si, original_input=describe(c)))
        if live and liveness:
            if f7_listed() and non_uniform_groups(c) and f7_shape(c, i):
                chk.count("known_finding_F7_observed")
                chk.known_finding(F7_WHAT)
            else:
                chk.violation("counterexample", "oracle:liveness",
                              dict(input=describe(c), clause=[f[1] for f in live], impl=i))
        bad = row["problem"] or row["diff"]
        if bad and not mine and not reported_corr:
            reported_corr = True
            found = search_around(binary, r, c, tags, 2000 if thorough else 200)
            if found:
                fc, fi, ff = found
                chk.violation("counterexample", "corr:future-queue",
                              dict(input=describe(fc), clause=[f[1] for f in ff], impl=fi,
                                   disagreement_at=describe(c), disagreement=bad))
            else:
                chk.violation("broken-obligation", "corr:future-queue",
                              dict(input=describe(c), impl=i, model=row.get("model"), ops=row["ops"],
                                   disagreement=bad,
                                   note="model and implementation disagree; the oracle accepted every input searched"),
                              no_input=True)
    return distinct, validated




# ------------------------------------------------------------------------------- nextest's wiring
# A real TestRunner (public API) over scripted test binaries; see harness/src/fq_runner.rs.

BIN_IDS = ["pkg", "pkg::bin", "pkg::bench/b", "pkg-x", "pkg::a/b", "other", "pkg::bin2"]
TEST_NAMES = ["alpha", "beta", "mod::gamma", "Zeta", "a_1", "a::b", "z", "m", "k::t", "B", "tests::x", "y"]

RUNNER_F7 = dict(op="runner", test_threads=3, capture="split", retries=0, groups={"g": 2},
                 binaries=[dict(id="pkg", tests=[
                     dict(name="a", sleep_ms=30, group="g", threads_required=1),
                     dict(name="b", sleep_ms=30, group="g", threads_required=2),
                     dict(name="c", sleep_ms=120, threads_required=2)])], tag="runner-F7")


# ungrouped long tests take global slots 0 and 1 first; the grouped tests then run with a global
# slot different from their group slot (separates the two numberings)
RUNNER_SLOTS = dict(op="runner", test_threads=3, capture="split", retries=1, groups={"g": 1},
                    binaries=[dict(id="pkg", tests=[
                        dict(name="u1", sleep_ms=260, prio=9), dict(name="u2", sleep_ms=260, prio=8),
                        dict(name="g1", sleep_ms=30, group="g", prio=1, fail_until=1),
                        dict(name="g2", sleep_ms=30, group="g"), dict(name="g3", sleep_ms=30, group="g")])],
                    tag="runner-slots")


def py_components(s):
    if "::" not in s:
        return (s, 0, "", "")
    pkg, suffix = s.split("::", 1)
    if "/" not in suffix:
        return (pkg, 1, "", suffix)
    kind, name = suffix.split("/", 1)
    return (pkg, 2, kind, name)


def gen_runner(r, force_serial=None):
    tt = r.choice([2, 2, 3, 3, 4])
    # CaptureStrategy::Combined is not used: in a debug build the real runner aborts on it with
    # "IO Safety violation: owned file descriptor already closed" (test_command/unix.rs hands one
    # fd to three owners) -- outside C08/C14, reported in docs/notes/C08.md
    capture = r.choice(["split", "split", "split", "none"])
    if force_serial == "none":
        capture, tt = "none", r.choice([2, 3, 4])
    elif force_serial == "j1":
        capture, tt = "split", 1
    groups = {f"g{k}": r.choice([1, 1, 2, 3]) for k in range(r.choice([0, 1, 1, 2]))}
    gw = {g: r.choice([1, 1, 2, "num-test-threads"]) for g in groups}   # uniform weight per group (outside F7's class)
    names = list(TEST_NAMES)
    r.shuffle(names)
    bins = r.sample(BIN_IDS, r.choice([1, 2, 2, 3]))
    total = r.randint(3, 8)
    binaries = [dict(id=b, tests=[]) for b in bins]
    retries = r.choice([0, 0, 1, 2])
    for j in range(total):
        g = r.choice([None] + list(groups)) if groups else None
        t = dict(name=names[j], sleep_ms=r.choice([25, 35, 45, 60]), prio=r.choice([0, 0, 0, 5, -5, 100, 1]))
        if g is not None:
            t["group"] = g
            t["threads_required"] = gw[g]
        else:
            tr = r.choice([None, None, 1, 2, 3, "num-test-threads"])
            if tr is not None:
                t["threads_required"] = tr
        if retries and r.random() < 0.25:
            t["fail_until"] = r.choice([1, 1, 2, 3])
        r.choice(binaries)["tests"].append(t)
    binaries = [b for b in binaries if b["tests"]]
    sc = dict(op="runner", test_threads=tt, capture=capture, retries=retries, groups=groups, binaries=binaries,
              tag="runner")
    if r.random() < 0.2:
        sc["cli_test_threads"] = r.choice([2, 3])
    return sc


def runner_expect(sc):
    teff = 1 if sc["capture"] == "none" else sc.get("cli_test_threads") or sc["test_threads"]
    tests = []
    for b in sc["binaries"]:
        for t in b["tests"]:
            tr = t.get("threads_required", 1)
            w = teff if tr == "num-test-threads" else tr
            tests.append(dict(bin=b["id"], name=t["name"], prio=t.get("prio", 0), w=w, group=t.get("group"),
                              fail_until=t.get("fail_until", 0)))
    order = sorted(tests, key=lambda t: (-t["prio"], py_components(t["bin"]), t["name"]))
    return teff, tests, [(t["bin"], t["name"]) for t in order]


def runner_oracle(sc, res):
    """checks the documented limits / slots / order on the scripted binaries' own log"""
    fails = []
    if "puppet" not in res:
        return [("protocol", f"runner did not run: {json.dumps(res)[:300]}")]
    teff, tests, order = runner_expect(sc)
    by = {(t["bin"], t["name"]): t for t in tests}
    S, E = {}, {}
    seq = []
    for line in res["puppet"]:
        f = line.split(" ")
        if f[0] == "S":
            key = (f[1], f[2], int(f[7]))
            S[key] = dict(t=int(f[3]), gslot=f[4], group=f[5], grslot=f[6])
            seq.append(key)
        elif f[0] == "E":
            E[(f[1], f[2], int(f[4]))] = int(f[3])
    retries = sc.get("cli_retries", sc["retries"])
    for key, s in S.items():
        t = by.get(key[:2])
        if t is None:
            fails.append(("protocol", f"unknown test ran: {key}"))
            continue
        # environment
        want_group = t["group"] if t["group"] else "@global"
        if s["group"] != want_group:
            fails.append(("shape", f"{key}: NEXTEST_TEST_GROUP={s['group']} expected {want_group}"))
        if not s["gslot"].isdigit():
            fails.append(("shape", f"{key}: NEXTEST_TEST_GLOBAL_SLOT={s['gslot']}"))
        elif int(s["gslot"]) >= teff:
            fails.append(("bounded", f"{key}: global slot {s['gslot']} >= test-threads {teff}"))
        if t["group"]:
            if not s["grslot"].isdigit():
                fails.append(("shape", f"{key}: NEXTEST_TEST_GROUP_SLOT={s['grslot']} for a test in group {t['group']}"))
            elif int(s["grslot"]) >= sc["groups"][t["group"]]:
                fails.append(("bounded", f"{key}: group slot {s['grslot']} >= max-threads {sc['groups'][t['group']]}"))
        elif s["grslot"] != "none":
            fails.append(("shape", f"{key}: NEXTEST_TEST_GROUP_SLOT={s['grslot']} for a test without group"))
        first = S.get((key[0], key[1], 1))
        if first and (first["gslot"], first["grslot"]) != (s["gslot"], s["grslot"]):
            fails.append(("stable", f"{key}: slots {s['gslot']}/{s['grslot']} differ from attempt 1 {first['gslot']}/{first['grslot']}"))
        # who is alive when this process starts (by the scripts' own clocks)
        alive = [k for k, x in S.items() if x["t"] <= s["t"] and E.get(k, 1 << 80) > s["t"]]
        load = sum(min(by[k[:2]]["w"], teff) for k in alive if k[:2] in by)
        if load > teff:
            fails.append(("limit", f"when {key} started: alive {alive}, capped threads-required sum {load} > {teff}"))
        if sc["capture"] == "none" and len(alive) > 1:
            fails.append(("serial", f"no-capture: {alive} alive at once"))
        if t["group"]:
            gm = sc["groups"][t["group"]]
            gl = sum(min(by[k[:2]]["w"], gm) for k in alive if by.get(k[:2], {}).get("group") == t["group"])
            if gl > gm:
                fails.append(("limit", f"when {key} started: group {t['group']} load {gl} > max-threads {gm}"))
        for k in alive:
            if k != key and S[k]["gslot"] == s["gslot"]:
                fails.append(("unique", f"{key} and {k} alive together with global slot {s['gslot']}"))
            if k != key and t["group"] and by.get(k[:2], {}).get("group") == t["group"] and S[k]["grslot"] == s["grslot"]:
                fails.append(("unique", f"{key} and {k} alive together with slot {s['grslot']} of group {t['group']}"))
    # attempts: fail_until = k means attempts 1..k fail
    for t in tests:
        n = len([k for k in S if k[:2] == (t["bin"], t["name"])])
        want = min(t["fail_until"], retries) + 1
        if n == 0:
            fails.append(("liveness", f"test {t['bin']} {t['name']} never ran"))
        elif n != want:
            fails.append(("protocol", f"test {t['bin']} {t['name']} ran {n} times, expected {want}"))
    if teff == 1:
        firsts = [k[:2] for k in seq if k[2] == 1]
        if firsts != [o for o in order if o in firsts] or len(firsts) != len(order):
            fails.append(("order", f"serial process order {firsts} is not priority/binary-id/name order {order}"))
        ev = [tuple(x) for x in res.get("started", [])]
        if ev != [o for o in order if o in ev]:
            fails.append(("order", f"serial TestStarted order {ev} is not {order}"))
    return fails


def runner_f7_shape(sc, res):
    if "puppet" not in res:
        return False
    ran = {tuple(l.split(" ")[1:3]) for l in res["puppet"] if l.startswith("S ")}
    missing = [t for b in sc["binaries"] for t in b["tests"] if (b["id"], t["name"]) not in ran]
    weights = {}
    for b in sc["binaries"]:
        for t in b["tests"]:
            if t.get("group"):
                weights.setdefault(t["group"], set()).add(t.get("threads_required", 1))
    return bool(missing) and all(t.get("group") for t in missing) and any(len(v) > 1 for v in weights.values())


def run_runner_scenarios(chk, binary, r, thorough, tags, prop, with_f7):
    """corr:runner-wiring: returns number of scenarios validated"""
    scs = [dict(RUNNER_F7)] if with_f7 else []
    scs += [dict(RUNNER_SLOTS), gen_runner(r, "none"), gen_runner(r, "j1"), gen_runner(r, "j1")]
    while len(scs) < (120 if thorough else 12):
        scs.append(gen_runner(r))
    impl = vlib.run_impl(binary, "fq", [{k: v for k, v in s.items() if k != "tag"} for s in scs], timeout=900)
    # model: serial start order = priority_queue (Model/Priority.v)
    serial = [(s, i) for s, i in zip(scs, impl) if runner_expect(s)[0] == 1 and "started" in i]
    exprs = []
    for s, _ in serial:
        pts = [f"mkpt {vlib.coq_str(b['id'])} {vlib.coq_str(t['name'])} ({t.get('prio', 0)})%Z"
               for b in s["binaries"] for t in b["tests"]]
        exprs.append("map (fun t => N.of_nat (length (pt_bin t)) :: pt_bin t ++ pt_name t) (priority_queue "
                     + coq_list(pts) + ")")
    model = vlib.coq_eval("fqrun" + prop.lower(), ["Base.Str", "Model.Priority"], exprs,
                          "From Coq Require Import ZArith.") if exprs else []
    model_order = {}
    for (s, i), m in zip(serial, model):
        model_order[id(s)] = [(vlib.decode_str(e[1:1 + e[0]]), vlib.decode_str(e[1 + e[0]:])) for e in m]
    n = 0
    for s, i in zip(scs, impl):
        chk.count("runner_cases")
        chk.count(f"runner_capture={s['capture']}")
        chk.count(f"runner_test_threads_effective={runner_expect(s)[0]}")
        if s.get("retries"):
            chk.count("runner_with_retries")
        fails = runner_oracle(s, i)
        mine = [f for f in fails if f[0] in tags]
        live = [f for f in fails if f[0] == "liveness"]
        err = isinstance(i.get("stats"), dict) and "execute_error" in i["stats"]
        if mine:
            chk.violation("counterexample", "oracle:runner-" + mine[0][0],
                          dict(input=s, clause=[f[1] for f in mine], impl=i))
            return n
        if live or err:
            if with_f7 and f7_listed() and runner_f7_shape(s, i):
                chk.count("known_finding_F7_observed_through_runner")
                chk.known_finding(F7_WHAT)
            elif "liveness" in tags or with_f7:
                chk.violation("counterexample", "oracle:runner-liveness",
                              dict(input=s, clause=[f[1] for f in live] or ["runner failed"], impl=i))
                return n
        if id(s) in model_order:
            ev = [tuple(x) for x in i.get("started", [])]
            if ev != model_order[id(s)]:
                chk.violation("broken-obligation", "corr:runner-serial-order",
                              dict(input=s, impl=ev, model=model_order[id(s)],
                                   note="the oracle accepted the order; model and implementation differ"),
                              no_input=True)
                return n
        n += 1
    chk.sample(dict(runner_scenario=scs[-1], puppet_log=impl[-1].get("puppet", [])[:8]))
    return n
