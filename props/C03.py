"""C03 — attempt classification: theorems (Properties/C03.v) + correspondence of the
classification model with nextest's real create_execution_result (exhaustive over exit codes
0-255, signals 1-64 (+65-126), core-dump bit, both flags), ExecutionStatuses::describe /
last_status (exhaustive over all attempt-result lists up to length 4) and the detect_fd_leaks
loop (timed probes over a pipe) through hook H3 + an independent oracle (pass iff exit 0, ...).

The race between process exit, pipe EOF and timers on real test processes, and the timeout /
spawn-failure composition inside run_test_inner, belong to the end-to-end rig; the leak probes
here drive the real loop with a pipe held by the harness, in units of 50 ms, never placing the
EOF within 40 % of the leak timeout, and a failure that depends on measured time is re-run with
the unit doubled (x3) and counts only if it reproduces every time."""
import itertools, json, os
import vlib
from vlib import coq_list, coq_bool

PROP = "C03"
IMPORTS = ["Base.Str", "Model.Classify", "Proofs.Classify"]
PRELUDE = """
Definition b2n (b : bool) : N := if b then 1 else 0.
Definition enc_result (r : result) : list N :=
  match r with
  | Pass => [0] | Leak => [1]
  | Fail None l => [2; 0; 0; b2n l]
  | Fail (Some s) l => [2; 1; s; b2n l]
  | ExecFail => [3] | Timeout => [4]
  end.
Definition cer_raw (raw : N) (errs leaked : bool) : list N :=
  match decode_raw raw with
  | Some st => enc_result (create_execution_result st errs leaked)
  | None => [9]
  end.
Definition nn (l : list nat) : list N := map N.of_nat l.
Definition enc_desc (l : list result) : (N * N * N * list N)%type :=
  match describe l with
  | None => (9, 0, 0, [])
  | Some (DSuccess i) => (0, N.of_nat i, 0, [])
  | Some (DFlaky i prior) => (1, N.of_nat i, 0, nn prior)
  | Some (DFailure f i retries) => (2, N.of_nat i, N.of_nat f, nn retries)
  end.
Definition enc_last (l : list result) : list N :=
  match last_status l with Some r => b2n (is_success r) :: enc_result r | None => [9] end.
Definition ev (t k : N) : (N * fd_event)%type :=
  (t, match k with 0 => FdData | 1 => FdEof | _ => Req end).
"""

PASS, LEAK, EXECFAIL, TIMEOUT = [0], [1], [3], [4]


def fail(sig, leaked):
    return [2, 0 if sig is None else 1, sig or 0, int(leaked)]


ALPHABET = [PASS, LEAK, fail(None, False), fail(None, True), fail(9, False), fail(11, True),
            EXECFAIL, TIMEOUT]


def coq_result(r):
    if r[0] == 0:
        return "Pass"
    if r[0] == 1:
        return "Leak"
    if r[0] == 2:
        return f"(Fail {'(Some %d)' % r[2] if r[1] else 'None'} {coq_bool(bool(r[3]))})"
    return "ExecFail" if r[0] == 3 else "Timeout"


# ---------------------------------------------------------------- independent oracle

def doc_cer(code, sig, err, leaked):
    """documented classification of one finished process"""
    if err:
        return EXECFAIL
    if sig is not None:
        return fail(sig, leaked)
    if code == 0:
        return LEAK if leaked else PASS
    return fail(None, leaked)


def doc_success(r):
    return r[0] in (0, 1)


def doc_describe(results):
    """[kind, last, first, others] over 0-based indices; None for the empty list (panic)"""
    n = len(results)
    if n == 0:
        return None
    if doc_success(results[-1]):
        return [1, n - 1, 0, list(range(0, n - 1))] if n > 1 else [0, 0, 0, []]
    return [2, n - 1, 0, list(range(1, n))]


def doc_leak(timeout, events):
    """leak iff the handles are still open when the leak timeout expires"""
    eof = next((t for t, k in events if k == "eof"), None)
    return eof is None or eof >= timeout


# ---------------------------------------------------------------- generators

def cer_cases(extra_signals):
    out = []
    for code in range(256):
        for err in (False, True):
            for leaked in (False, True):
                out.append(dict(op="cer", raw=code << 8, err=err, leaked=leaked, code=code, sig=None, core=False))
    sigs = list(range(1, 65)) + (list(range(65, 127)) if extra_signals else [])
    for sig in sigs:
        for core in (False, True):
            for err in (False, True):
                for leaked in (False, True):
                    out.append(dict(op="cer", raw=sig | (128 if core else 0), err=err, leaked=leaked,
                                    code=None, sig=sig, core=core))
    return out


LEAK_TIMEOUT = 4     # in units


def leak_scenarios(r, thorough):
    sc = []
    for eof in (0, 1, 2, 6, 8, 12, None):          # never within 40 % of the timeout (2.4 .. 5.6)
        sc.append([[eof, "eof"]] if eof is not None else [])                     # silent holder
        for period in (1, 2):
            end = eof if eof is not None else 10
            evs = [[t, "data"] for t in range(period, end, period)]
            sc.append(evs + ([[eof, "eof"]] if eof is not None else []))          # writer
    sc.append([[2, "req"], [5, "req"], [8, "req"], [10, "eof"]])                 # requests re-arm?
    sc.append([[1, "req"], [2, "eof"]])
    sc.append([[1, "data"], [2, "req"], [3, "data"], [5, "req"], [6, "data"], [7, "eof"]])
    for _ in range(12 if thorough else 4):
        eof = r.choice([1, 2, 6, 7, 9, 11, None])
        end = eof if eof is not None else 9
        evs = sorted([[r.randint(0, end), r.choice(["data", "data", "req"])] for _ in range(r.randint(0, 8))
                      if end > 0], key=lambda e: e[0])
        evs = [e for e in evs if eof is None or e[0] <= eof]
        sc.append(evs + ([[eof, "eof"]] if eof is not None else []))
    seen, out = set(), []
    for s in sc:
        k = json.dumps(s)
        if k not in seen:
            seen.add(k)
            out.append(s)
    return out


def coq_events(evs):
    code = {"data": 0, "eof": 1, "req": 2}
    return coq_list([f"ev {t} {code[k]}" for t, k in evs])


def corpus():
    p = os.path.join(vlib.VERIF, "corpus", "C03.json")
    return json.load(open(p)) if os.path.exists(p) else []


def norm_desc(i):
    """impl describe (1-based attempt numbers) -> 0-based [kind, last, first, others]"""
    d = i["describe"]
    return [d[0], d[1] - 1, (d[2] - 1) if d[0] == 2 else 0, [x - 1 for x in d[3]]]


def run_leak(binary, scenarios, unit_ms):
    cases = [dict(op="leak", unit_ms=unit_ms, timeout=LEAK_TIMEOUT, events=s) for s in scenarios]
    return cases, vlib.run_impl(binary, "classify", cases, shards=1)


def leak_verdicts(chk, binary, scenarios, model):
    """returns (kind, detail) of the first confirmed problem, or None"""
    unit = 50
    cases, impl = run_leak(binary, scenarios, unit)
    for s, c, i, m in zip(scenarios, cases, impl, model):
        chk.count("leak_probe_cases")
        chk.count("leak_probe_" + ("never_eof" if not any(k == "eof" for _, k in s) else
                                   "eof_before" if doc_leak(LEAK_TIMEOUT, s) is False else "eof_after"))
        want = doc_leak(LEAK_TIMEOUT, s)
        ok = lambda res: isinstance(res, list) and bool(res[0]) == want and \
            (not res[0] or res[1] >= LEAK_TIMEOUT * unit - 5)
        if ok(i) and bool(i[0]) == bool(m):
            continue
        # timing discipline: re-run with the unit doubled, three times
        runs, u, still = [dict(unit_ms=unit, impl=i)], unit, True
        for _ in range(3):
            u *= 2
            _, again = run_leak(binary, [s], u)
            runs.append(dict(unit_ms=u, impl=again[0]))
            good = isinstance(again[0], list) and bool(again[0][0]) == want and \
                (not again[0][0] or again[0][1] >= LEAK_TIMEOUT * u - 5)
            if good:
                still = False
                break
        if still:
            eof = next((t for t, k in s if k == "eof"), None)
            return ("counterexample", dict(
                input=c, runs=runs, model_leak=bool(m), documented_leak=want,
                clause=(f"handles held until {eof if eof is not None else 'forever'} units with a leak timeout of "
                        f"{LEAK_TIMEOUT} units: reported {'LEAK' if i[0] else 'not leaky'} after {i[1]} ms"
                        if isinstance(i, list) else "probe failed")))
        if bool(m) != want:
            return ("broken-obligation", dict(input=c, model_leak=bool(m), documented_leak=want))
    return None


def run(tier, seed):
    chk = vlib.Check(PROP, tier, seed)
    gate = vlib.coq_gate(PROP)
    vlib.gate_or_violation(chk, gate)
    binary, err = vlib.build_harness()
    if binary is None:
        chk.violation("broken-obligation", "harness-build", dict(error=err), no_input=True)
        return chk.finish(gate, "make -C coq Properties/C03.vo", [])
    r = vlib.rng_for(seed, PROP)
    thorough = tier == "thorough"

    # ---- timed leak probes first (before the machine is loaded by the parallel coqc runs)
    scenarios = [c["events"] for c in corpus() if "events" in c] + leak_scenarios(r, thorough)
    leak_model = vlib.coq_eval("c03l", IMPORTS, [
        f"b2n (detect_leak {LEAK_TIMEOUT} {coq_events(s)})" for s in scenarios], PRELUDE, shards=2)
    bad = leak_verdicts(chk, binary, scenarios, leak_model)
    if bad:
        chk.violation(bad[0], "oracle:detect-leak" if bad[0] == "counterexample" else "corr:detect-leak",
                      bad[1], no_input=(bad[0] != "counterexample"))
    chk.sample(dict(leak_probe=dict(timeout_units=LEAK_TIMEOUT, unit_ms=50, events=scenarios[4]),
                    model_leak=bool(leak_model[4])))

    # ---- corr:create-execution-result — exhaustive
    cases = cer_cases(extra_signals=True)
    impl = vlib.run_impl(binary, "classify", [dict(op="cer", raw=c["raw"], err=c["err"], leaked=c["leaked"])
                                              for c in cases])
    model = vlib.coq_eval("c03c", IMPORTS, [
        f"cer_raw {c['raw']} {coq_bool(c['err'])} {coq_bool(c['leaked'])}" for c in cases], PRELUDE)
    mism = None
    for c, i, m in zip(cases, impl, model):
        chk.count("cer_cases")
        chk.count("cer_" + ("exit0" if c["code"] == 0 else "exit_nonzero" if c["sig"] is None else
                            "signal" if c["sig"] <= 64 else "signal_65_126"))
        want = doc_cer(c["code"], c["sig"], c["err"], c["leaked"])
        if i != want:
            what = f"exit code {c['code']}" if c["sig"] is None else \
                f"signal {c['sig']}{' (core dumped)' if c['core'] else ''}"
            chk.violation("counterexample", "oracle:create-execution-result",
                          dict(input=c, impl=i, documented=want, model=m,
                               clause=f"process ended with {what}, read error={c['err']}, leaked={c['leaked']}: "
                                      "pass iff exit 0 (leak iff handles held), failure carrying the signal "
                                      "otherwise, exec-fail on read errors"))
            mism = "reported"
            break
        if i != m and mism is None:
            mism = (c, i, m)
    if mism and mism != "reported":
        c, i, m = mism
        chk.violation("broken-obligation", "corr:create-execution-result", dict(input=c, impl=i, model=m),
                      no_input=True)
    chk.sample(dict(cer_case=cases[1025], impl=impl[1025]))

    # ---- corr:describe — exhaustive over all lists of attempt results up to length 4 (5)
    maxlen = 5 if thorough else 4
    lists = [[]]
    for n in range(1, maxlen + 1):
        lists += [list(t) for t in itertools.product(ALPHABET, repeat=n)]
    impl = vlib.run_impl(binary, "classify", [dict(op="describe", results=l) for l in lists])
    model = vlib.coq_eval("c03d", IMPORTS, [
        f"(enc_desc {coq_list([coq_result(x) for x in l])}, enc_last {coq_list([coq_result(x) for x in l])})"
        for l in lists], PRELUDE, timeout=2400)
    mism = None
    for l, i, mm in zip(lists, impl, model):
        md, ml = mm[:4], mm[4]
        chk.count("describe_cases")
        chk.count(f"describe_len{len(l)}")
        want = doc_describe(l)
        md_flat = None if md[0] == 9 else list(md)
        if want is None:
            got = None if "panic" in i else "returned"
            got_last = None
        else:
            got = norm_desc(i) if "describe" in i else "panic"
            got_last = [i.get("last_attempt", 0) - 1, i.get("last_result"), i.get("is_success")]
        want_last = None if want is None else [len(l) - 1, l[-1], doc_success(l[-1])]
        if got != want or got_last != want_last:
            chk.violation("counterexample", "oracle:describe",
                          dict(input=l, impl=i, documented=dict(describe=want, last=want_last),
                               clause="final result = last attempt; flaky iff the last attempt passed and "
                                      "there was more than one attempt; otherwise success (single passing "
                                      "attempt) or failure (first, last, retries = all after the first)"))
            mism = "reported"
            break
        ml_want = [9] if want is None else [int(doc_success(l[-1]))] + l[-1]
        if (md_flat != want or ml != ml_want) and mism is None:
            mism = (l, i, md, ml)
    if mism and mism != "reported":
        l, i, md, ml = mism
        chk.violation("broken-obligation", "corr:describe", dict(input=l, impl=i, model=[md, ml]), no_input=True)
    chk.sample(dict(describe_case=lists[700], impl=impl[700]))

    chk.assumptions = [
        "Unix only; raw wait statuses are those of terminated children (code<<8, sig|0x80*core)",
        "child_errors is abstracted to 'some read error occurred'",
        "the composition in run_test/run_test_inner (spawn error => ExecFail, timeout status overrides) is "
        "modelled from the source and tied only by the end-to-end rig, not by a hook",
        "leak probes use a pipe held by the harness instead of a descendant process; EOF never within 40 % "
        "of the leak timeout; timer-vs-event ties are not exercised",
        "F9 (launcher maps an exec error to exit 70 => FAIL) is carried in the model and proved/refuted "
        "there; it is not reproduced by this check (needs the real cargo-nextest binary: end-to-end rig)",
    ]
    nontrivial = sum(1 for l in lists if len(l) >= 2) + sum(1 for c in cases if c["raw"] != 0)
    return chk.finish(
        gate, "make -C coq Properties/C03.vo && coqc gen/assump_C03.v (Print Assumptions)",
        ["Coq 8.16.1 kernel + vm_compute",
         "hand-written model Model/Classify.v tied by corr:create-execution-result, corr:describe, "
         "corr:detect-leak (hook H3)", "Python generators/oracles in props/C03.py", "harness/src/classify.rs"],
        dict(evaluations=chk.counts.get("cer_cases", 0) + chk.counts.get("describe_cases", 0) +
             chk.counts.get("leak_probe_cases", 0),
             distinct_nontrivial=nontrivial, exhaustive=True,
             rule="create_execution_result: every (exit code 0-255 | signal 1-126 x core bit) x read-error flag x "
                  "leaked flag, enumerated completely; describe: every list of attempt results of length 0.."
                  f"{maxlen} over an 8-result alphabet, enumerated completely; non-trivial = non-zero wait status, "
                  "or at least two attempts; all enumerated cases are distinct by construction; plus timed "
                  "leak probes (sampled, not exhaustive)",
             traces_validated_against_impl=chk.counts.get("leak_probe_cases", 0)))


def replay(path, seed):
    d = json.load(open(path))
    print(json.dumps(d, indent=1)[:3000])
    binary, err = vlib.build_harness()
    inp = d.get("input")
    if isinstance(inp, dict) and inp.get("op") == "leak":
        res = vlib.run_impl(binary, "classify", [inp])[0]
        want = doc_leak(inp["timeout"], inp["events"])
        print("impl now:", res, "documented leak:", want)
        return 0 if bool(res[0]) == want else 1
    if isinstance(inp, dict) and inp.get("op") == "cer":
        res = vlib.run_impl(binary, "classify", [dict(op="cer", raw=inp["raw"], err=inp["err"],
                                                      leaked=inp["leaked"])])[0]
        want = doc_cer(inp.get("code"), inp.get("sig"), inp["err"], inp["leaked"])
        print("impl now:", res, "documented:", want)
        return 0 if res == want else 1
    if isinstance(inp, list):
        res = vlib.run_impl(binary, "classify", [dict(op="describe", results=inp)])[0]
        want = doc_describe(inp)
        got = None if "panic" in res else norm_desc(res)
        print("impl now:", res, "documented:", want)
        return 0 if got == want else 1
    return 0
