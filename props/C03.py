"""C03 — attempt classification: theorems (Properties/C03.v) + correspondence of the
classification model with nextest's real create_execution_result (exhaustive over exit codes
0-255, signals 1-64 (+65-126), core-dump bit, both flags), ExecutionStatuses::describe /
last_status (exhaustive over all attempt-result lists up to length 4) and the detect_fd_leaks
loop (timed probes over a pipe) through hook H3 + an independent oracle (pass iff exit 0, ...).

The race between process exit, pipe EOF and timers on real test processes, and the timeout /
spawn-failure composition inside run_test_inner, belong to the end-to-end rig; the leak probes
here drive the real loop with a pipe held by the harness, in units of 50 ms, never placing the
EOF within 40 % of the leak timeout, and a failure that depends on measured time is re-run with
the unit doubled (x3) and counts only if it reproduces every time."""
import itertools, json, os
import vlib, gen_tie
from vlib import coq_list, coq_bool
from props import retry_rig as rig

PROP = "C03"
IMPORTS = ["Base.Str", "Model.Classify", "Proofs.Classify"]
PRELUDE = """
Definition b2n (b : bool) : N := if b then 1 else 0.
Definition enc_result (r : result) : list N :=
  match r with
  | Pass => [0] | Leak => [1]
  | Fail None l => [2; 0; 0; b2n l]
  | Fail (Some s) l => [2; 1; s; b2n l]
  | ExecFail => [3] | Timeout => [4]
  end.
Definition cer_raw (raw : N) (errs leaked : bool) : list N :=
  match decode_raw raw with
  | Some st => enc_result (create_execution_result st errs leaked)
  | None => [9]
  end.
Definition nn (l : list nat) : list N := map N.of_nat l.
Definition enc_desc (l : list result) : (N * N * N * list N)%type :=
  match describe l with
  | None => (9, 0, 0, [])
  | Some (DSuccess i) => (0, N.of_nat i, 0, [])
  | Some (DFlaky i prior) => (1, N.of_nat i, 0, nn prior)
  | Some (DFailure f i retries) => (2, N.of_nat i, N.of_nat f, nn retries)
  end.
Definition enc_last (l : list result) : list N :=
  match last_status l with Some r => b2n (is_success r) :: enc_result r | None => [9] end.
Definition real_attempt (cannot_exec : bool) (raw : N) (timed_out leaked : bool) : list N :=
  match (if cannot_exec then Some CannotExec
         else match decode_raw raw with Some st => Some (Ran st) | None => None end) with
  | Some b => enc_result (attempt_of Direct b timed_out false leaked)
  | None => [9]
  end.
Definition ev (t k : N) : (N * fd_event)%type :=
  (t, match k with 0 => FdData | 1 => FdEof | _ => Req end).
"""

PASS, LEAK, EXECFAIL, TIMEOUT = [0], [1], [3], [4]


def fail(sig, leaked):
    return [2, 0 if sig is None else 1, sig or 0, int(leaked)]


ALPHABET = [PASS, LEAK, fail(None, False), fail(None, True), fail(9, False), fail(11, True),
            EXECFAIL, TIMEOUT]


def coq_result(r):
    if r[0] == 0:
        return "Pass"
    if r[0] == 1:
        return "Leak"
    if r[0] == 2:
        return f"(Fail {'(Some %d)' % r[2] if r[1] else 'None'} {coq_bool(bool(r[3]))})"
    return "ExecFail" if r[0] == 3 else "Timeout"


# ---------------------------------------------------------------- independent oracle

def doc_cer(code, sig, err, leaked):
    """documented classification of one finished process"""
    if err:
        return EXECFAIL
    if sig is not None:
        return fail(sig, leaked)
    if code == 0:
        return LEAK if leaked else PASS
    return fail(None, leaked)


def doc_success(r):
    return r[0] in (0, 1)


def doc_describe(results):
    """[kind, last, first, others] over 0-based indices; None for the empty list (panic)"""
    n = len(results)
    if n == 0:
        return None
    if doc_success(results[-1]):
        return [1, n - 1, 0, list(range(0, n - 1))] if n > 1 else [0, 0, 0, []]
    return [2, n - 1, 0, list(range(1, n))]


def doc_leak(timeout, events):
    """leak iff the handles are still open when the leak timeout expires"""
    eof = next((t for t, k in events if k == "eof"), None)
    return eof is None or eof >= timeout


# ---------------------------------------------------------------- generators

def cer_cases(extra_signals):
    out = []
    for code in range(256):
        for err in (False, True):
            for leaked in (False, True):
                out.append(dict(op="cer", raw=code << 8, err=err, leaked=leaked, code=code, sig=None, core=False))
    sigs = list(range(1, 65)) + (list(range(65, 127)) if extra_signals else [])
    for sig in sigs:
        for core in (False, True):
            for err in (False, True):
                for leaked in (False, True):
                    out.append(dict(op="cer", raw=sig | (128 if core else 0), err=err, leaked=leaked,
                                    code=None, sig=sig, core=core))
    return out


LEAK_TIMEOUT = 4     # in units


def leak_scenarios(r, thorough):
    sc = []
    for eof in (0, 1, 2, 6, 8, 12, None):          # never within 40 % of the timeout (2.4 .. 5.6)
        sc.append([[eof, "eof"]] if eof is not None else [])                     # silent holder
        for period in (1, 2):
            end = eof if eof is not None else 10
            evs = [[t, "data"] for t in range(period, end, period)]
            sc.append(evs + ([[eof, "eof"]] if eof is not None else []))          # writer
    sc.append([[2, "req"], [5, "req"], [8, "req"], [10, "eof"]])                 # requests re-arm?
    sc.append([[1, "req"], [2, "eof"]])
    sc.append([[1, "data"], [2, "req"], [3, "data"], [5, "req"], [6, "data"], [7, "eof"]])
    for _ in range(12 if thorough else 4):
        eof = r.choice([1, 2, 6, 7, 9, 11, None])
        end = eof if eof is not None else 9
        evs = sorted([[r.randint(0, end), r.choice(["data", "data", "req"])] for _ in range(r.randint(0, 8))
                      if end > 0], key=lambda e: e[0])
        evs = [e for e in evs if eof is None or e[0] <= eof]
        sc.append(evs + ([[eof, "eof"]] if eof is not None else []))
    seen, out = set(), []
    for s in sc:
        k = json.dumps(s)
        if k not in seen:
            seen.add(k)
            out.append(s)
    return out


def coq_events(evs):
    code = {"data": 0, "eof": 1, "req": 2}
    return coq_list([f"ev {t} {code[k]}" for t, k in evs])


def corpus():
    p = os.path.join(vlib.VERIF, "corpus", "C03.json")
    return json.load(open(p)) if os.path.exists(p) else []


def norm_desc(i):
    """impl describe (1-based attempt numbers) -> 0-based [kind, last, first, others]"""
    d = i["describe"]
    return [d[0], d[1] - 1, (d[2] - 1) if d[0] == 2 else 0, [x - 1 for x in d[3]]]


def run_leak(binary, scenarios, unit_ms):
    cases = [dict(op="leak", unit_ms=unit_ms, timeout=LEAK_TIMEOUT, events=s) for s in scenarios]
    return cases, vlib.run_impl(binary, "classify", cases, shards=1)


def leak_verdicts(chk, binary, scenarios, model):
    """returns (kind, detail) of the first confirmed problem, or None"""
    unit = 50
    cases, impl = run_leak(binary, scenarios, unit)
    for s, c, i, m in zip(scenarios, cases, impl, model):
        chk.count("leak_probe_cases")
        chk.count("leak_probe_" + ("never_eof" if not any(k == "eof" for _, k in s) else
                                   "eof_before" if doc_leak(LEAK_TIMEOUT, s) is False else "eof_after"))
        want = doc_leak(LEAK_TIMEOUT, s)
        ok = lambda res: isinstance(res, list) and bool(res[0]) == want and \
            (not res[0] or res[1] >= LEAK_TIMEOUT * unit - 5)
        if ok(i) and bool(i[0]) == bool(m):
            continue
        # timing discipline: re-run with the unit doubled, three times
        runs, u, still = [dict(unit_ms=unit, impl=i)], unit, True
        for _ in range(3):
            u *= 2
            _, again = run_leak(binary, [s], u)
            runs.append(dict(unit_ms=u, impl=again[0]))
            good = isinstance(again[0], list) and bool(again[0][0]) == want and \
                (not again[0][0] or again[0][1] >= LEAK_TIMEOUT * u - 5)
            if good:
                still = False
                break
        if still:
            eof = next((t for t, k in s if k == "eof"), None)
            return ("counterexample", dict(
                input=c, runs=runs, model_leak=bool(m), documented_leak=want,
                clause=(f"handles held until {eof if eof is not None else 'forever'} units with a leak timeout of "
                        f"{LEAK_TIMEOUT} units: reported {'LEAK' if i[0] else 'not leaky'} after {i[1]} ms"
                        if isinstance(i, list) else "probe failed")))
        if bool(m) != want:
            return ("broken-obligation", dict(input=c, model_leak=bool(m), documented_leak=want))
    return None



# ---------------------------------------------------------------- real processes (mini rig)

SIGNALS = [1, 2, 3, 4, 6, 8, 9, 10, 11, 12, 13, 14, 15, 24, 31]      # terminate by default, not job control
RIG_LEAK_MS, RIG_SLOW_MS = 150, 700


def rig_behaviours(r, thorough, codes):
    """(name, behaviour, ground truth dict(cannot_exec, raw, timed_out, leaked))"""
    out = []
    for c in codes:
        out.append((f"exit{c}", dict(kind="exit", code=c), dict(raw=c << 8)))
    for sgn in (SIGNALS if thorough else r.sample(SIGNALS, 6) + [11, 9]):
        out.append((f"sig{sgn}", dict(kind="signal", sig=sgn), dict(raw=sgn)))
    for code in (0, 3):
        for hold in (0, 40, 450, 700):        # leak timeout 150 ms: never within 40 % of it
            out.append((f"hold{hold}_{code}", dict(kind="hold", code=code, hold_ms=hold),
                        dict(raw=code << 8, leaked=hold > RIG_LEAK_MS)))
    # the descendant holding the pipes has left the test's process group (a daemon): still a leak iff past the timeout
    for code, hold in ((0, 700), (0, 40), (5, 450)):
        out.append((f"dhold{hold}_{code}", dict(kind="hold", code=code, hold_ms=hold, own_session=True),
                    dict(raw=code << 8, leaked=hold > RIG_LEAK_MS)))
    # F2 on real processes: the descendant keeps writing while it holds the pipe
    out.append(("writer0", dict(kind="writer", code=0, period_ms=40, total_ms=800), dict(raw=0, leaked=True)))
    out.append(("writer7", dict(kind="writer", code=7, period_ms=40, total_ms=800), dict(raw=7 << 8, leaked=True)))
    out.append(("sleepy0", dict(kind="sleep", ms=4000, code=0), dict(raw=0, timed_out=True)))
    out.append(("sleepy1", dict(kind="sleep", ms=4000, code=1), dict(raw=256, timed_out=True)))
    return out


def doc_real(g):
    if g.get("cannot_exec"):
        return EXECFAIL
    if g.get("timed_out"):
        return TIMEOUT
    raw = g["raw"]
    sig = raw & 0x7f
    return doc_cer(raw >> 8 if sig == 0 else None, sig or None, False, bool(g.get("leaked")))


def check_real_processes(chk, binary, r, thorough):
    all_codes = list(range(256))
    r.shuffle(all_codes)
    code_sets = [sorted(set([0, 1, 101, 255] + all_codes[i * 32:(i + 1) * 32])) for i in range(8)] if thorough \
        else [sorted(set([0, 1, 2, 101, 127, 255] + all_codes[:10]))]
    problem, mismatch, nontrivial = None, None, set()
    for si, codes in enumerate(code_sets):
        behs = rig_behaviours(r, thorough, codes)
        tests = {n: dict(policy=None, default=b) for n, b, _ in behs}
        truth = {n: g for n, _, g in behs}
        # one flaky and one always-failing test with retries, for describe on real runs
        two = dict(kind="fixed", count=2, delay=0, jitter=False)
        tests["flaky"] = dict(policy=two, default=dict(kind="exit", code=0),
                              attempts={1: dict(kind="signal", sig=6), 2: dict(kind="exit", code=4)})
        tests["hopeless"] = dict(policy=two, default=dict(kind="exit", code=9))
        sc = dict(profile_retries=None, leak_timeout_ms=RIG_LEAK_MS, slow_period_ms=RIG_SLOW_MS,
                  bins={"ba": tests, "bb": {"noexec": dict(policy=None, default=dict(kind="exit", code=0))}},
                  chmod_after_list=["bb"], threads=6)
        truth["noexec"] = dict(cannot_exec=True, raw=0)
        names = [n for n in truth]
        model = dict(zip(names, vlib.coq_eval("c03r", IMPORTS, [
            f"real_attempt {coq_bool(bool(truth[n].get('cannot_exec')))} {truth[n]['raw']} "
            f"{coq_bool(bool(truth[n].get('timed_out')))} {coq_bool(bool(truth[n].get('leaked')))}"
            for n in names], PRELUDE, shards=2)))

        def run_once(tag):
            case = rig.prepare(tag, sc)
            res = vlib.run_impl(binary, "backoff", [case], shards=1)[0]
            rig.cleanup(tag)
            return res, rig.per_test(res)
        res, per = run_once(f"c03_{si}")
        if "events" not in res or "error" in res:
            problem = problem or dict(input=dict(codes=codes), impl=res, clause="the run failed")
            continue
        for n in names:
            chk.count("real_process_cases")
            g = truth[n]
            chk.count("real_" + ("execfail" if g.get("cannot_exec") else "timeout" if g.get("timed_out") else
                                 "leak" if g.get("leaked") else "signal" if g["raw"] & 0x7f else
                                 "exit0" if g["raw"] == 0 else "exit_nonzero"))
            want = doc_real(g)
            b = "bb" if n == "noexec" else "ba"
            fin = (per.get((b, n)) or {}).get("finished")
            got = fin and fin["attempts"][-1]["result"]
            nontrivial.add(json.dumps([n.rstrip("0123456789") if n.startswith("exit") else n, want]))
            if got != want:
                # timing discipline: anything involving time (timeout, leak) must reproduce three times
                timed = g.get("timed_out") or g.get("leaked") is not None or got in (TIMEOUT, LEAK) or \
                    (got and got[0] == 2 and got[3] == 1)
                runs = [got]
                if timed:
                    for k in range(3):
                        _, per2 = run_once(f"c03_{si}_re{k}")
                        f2 = (per2.get((b, n)) or {}).get("finished")
                        runs.append(f2 and f2["attempts"][-1]["result"])
                    if any(x == want for x in runs):
                        continue
                problem = problem or dict(
                    input=dict(test=n, behaviour=tests.get(n, {}).get("default"), ground_truth=g,
                               leak_timeout_ms=RIG_LEAK_MS, slow_timeout_ms=RIG_SLOW_MS),
                    impl=runs, documented=want, model=model[n],
                    clause=f"process behaviour {g} was reported as {got}, documented {want}")
            elif model[n] != got and mismatch is None:
                mismatch = dict(input=dict(test=n, ground_truth=g), impl=got, model=model[n])
        # describe / final result on real runs
        for n, kind, nres in (("flaky", 1, [fail(6, False), fail(None, False), PASS]),
                              ("hopeless", 2, [fail(None, False)] * 3)):
            chk.count("real_process_cases")
            fin = (per.get(("ba", n)) or {}).get("finished")
            got = fin and ([a["result"] for a in fin["attempts"]], fin["describe"], fin["last_result"])
            if got != (nres, kind, nres[-1]):
                problem = problem or dict(input=dict(test=n), impl=fin,
                                          documented=dict(results=nres, describe=kind, final=nres[-1]),
                                          clause="final result = last attempt; flaky iff passed after a failure")
        stats = {k: res.get(k) for k in ("passed", "flaky", "failed", "exec_failed", "timed_out", "leaky")}
        chk.sample(dict(real_run_stats=stats, tests=len(names) + 2))
    if problem:
        chk.violation("counterexample", "oracle:real-process", problem)
    elif mismatch:
        chk.violation("broken-obligation", "corr:real-process", mismatch, no_input=True)
    return len(nontrivial)


def run(tier, seed):
    chk = vlib.Check(PROP, tier, seed)
    gate = vlib.coq_gate(PROP)
    vlib.gate_or_violation(chk, gate)
    # glue code (DESIGN 11.7, third round): helpers::signal_str, the number -> name table behind "SIGxxx" in status lines,
    # read from the source and compared with the Linux x86_64 numbering
    gen_tie.gate(chk, ['signal_str'], gate, family="glue")
    # fifth round: the `leaked` argument of the create_execution_result call in run_test_inner / run_setup_script_inner
    # IS the value detect_fd_leaks returned (nothing else is mixed into the leak verdict)
    gen_tie.gate(chk, ['leak_verdict_unchanged'], gate, family="glue")
    binary, err = vlib.build_harness()
    if binary is None:
        chk.violation("broken-obligation", "harness-build", dict(error=err), no_input=True)
        return chk.finish(gate, "make -C coq Properties/C03.vo", [])
    r = vlib.rng_for(seed, PROP)
    thorough = tier == "thorough"

    # ---- real processes under the real runner, then timed leak probes (both before the machine is
    #      loaded by the parallel coqc runs)
    real_distinct = check_real_processes(chk, binary, vlib.rng_for(seed, PROP + ":rig"), thorough)

    scenarios = [c["events"] for c in corpus() if "events" in c] + leak_scenarios(r, thorough)
    leak_model = vlib.coq_eval("c03l", IMPORTS, [
        f"b2n (detect_leak {LEAK_TIMEOUT} {coq_events(s)})" for s in scenarios], PRELUDE, shards=2)
    bad = leak_verdicts(chk, binary, scenarios, leak_model)
    if bad:
        chk.violation(bad[0], "oracle:detect-leak" if bad[0] == "counterexample" else "corr:detect-leak",
                      bad[1], no_input=(bad[0] != "counterexample"))
    chk.sample(dict(leak_probe=dict(timeout_units=LEAK_TIMEOUT, unit_ms=50, events=scenarios[4]),
                    model_leak=bool(leak_model[4])))

    # ---- corr:create-execution-result — exhaustive
    cases = cer_cases(extra_signals=True)
    impl = vlib.run_impl(binary, "classify", [dict(op="cer", raw=c["raw"], err=c["err"], leaked=c["leaked"])
                                              for c in cases])
    model = vlib.coq_eval("c03c", IMPORTS, [
        f"cer_raw {c['raw']} {coq_bool(c['err'])} {coq_bool(c['leaked'])}" for c in cases], PRELUDE)
    mism = None
    for c, i, m in zip(cases, impl, model):
        chk.count("cer_cases")
        chk.count("cer_" + ("exit0" if c["code"] == 0 else "exit_nonzero" if c["sig"] is None else
                            "signal" if c["sig"] <= 64 else "signal_65_126"))
        want = doc_cer(c["code"], c["sig"], c["err"], c["leaked"])
        if i != want:
            what = f"exit code {c['code']}" if c["sig"] is None else \
                f"signal {c['sig']}{' (core dumped)' if c['core'] else ''}"
            chk.violation("counterexample", "oracle:create-execution-result",
                          dict(input=c, impl=i, documented=want, model=m,
                               clause=f"process ended with {what}, read error={c['err']}, leaked={c['leaked']}: "
                                      "pass iff exit 0 (leak iff handles held), failure carrying the signal "
                                      "otherwise, exec-fail on read errors"))
            mism = "reported"
            break
        if i != m and mism is None:
            mism = (c, i, m)
    if mism and mism != "reported":
        c, i, m = mism
        chk.violation("broken-obligation", "corr:create-execution-result", dict(input=c, impl=i, model=m),
                      no_input=True)
    chk.sample(dict(cer_case=cases[1025], impl=impl[1025]))

    # ---- corr:describe — exhaustive over all lists of attempt results up to length 4 (5)
    maxlen = 5 if thorough else 4
    lists = [[]]
    for n in range(1, maxlen + 1):
        lists += [list(t) for t in itertools.product(ALPHABET, repeat=n)]
    impl = vlib.run_impl(binary, "classify", [dict(op="describe", results=l) for l in lists])
    model = vlib.coq_eval("c03d", IMPORTS, [
        f"(enc_desc {coq_list([coq_result(x) for x in l])}, enc_last {coq_list([coq_result(x) for x in l])})"
        for l in lists], PRELUDE, timeout=2400)
    mism = None
    for l, i, mm in zip(lists, impl, model):
        md, ml = mm[:4], mm[4]
        chk.count("describe_cases")
        chk.count(f"describe_len{len(l)}")
        want = doc_describe(l)
        md_flat = None if md[0] == 9 else list(md)
        if want is None:
            got = None if "panic" in i else "returned"
            got_last = None
        else:
            got = norm_desc(i) if "describe" in i else "panic"
            got_last = [i.get("last_attempt", 0) - 1, i.get("last_result"), i.get("is_success")]
        want_last = None if want is None else [len(l) - 1, l[-1], doc_success(l[-1])]
        if got != want or got_last != want_last:
            chk.violation("counterexample", "oracle:describe",
                          dict(input=l, impl=i, documented=dict(describe=want, last=want_last),
                               clause="final result = last attempt; flaky iff the last attempt passed and "
                                      "there was more than one attempt; otherwise success (single passing "
                                      "attempt) or failure (first, last, retries = all after the first)"))
            mism = "reported"
            break
        ml_want = [9] if want is None else [int(doc_success(l[-1]))] + l[-1]
        if (md_flat != want or ml != ml_want) and mism is None:
            mism = (l, i, md, ml)
    if mism and mism != "reported":
        l, i, md, ml = mism
        chk.violation("broken-obligation", "corr:describe", dict(input=l, impl=i, model=[md, ml]), no_input=True)
    chk.sample(dict(describe_case=lists[700], impl=impl[700]))

    chk.assumptions = [
        "Unix only; raw wait statuses are those of terminated children (code<<8, sig|0x80*core)",
        "child_errors is abstracted to 'some read error occurred'",
        "the composition in run_test/run_test_inner (spawn error => ExecFail, timeout status overrides) is "
        "tied by running the real TestRunner (public API, direct spawn) over scripted shell-script test "
        "binaries (props/retry_rig.py): exit codes, signals, descendants holding stdout, sleeping past the "
        "slow timeout, a binary made non-executable after listing; races near the thresholds and the "
        "double-spawn launcher are left to the end-to-end rig",
        "leak probes use a pipe held by the harness instead of a descendant process; EOF never within 40 % "
        "of the leak timeout; timer-vs-event ties are not exercised",
        "F9 (launcher maps an exec error to exit 70 => FAIL) is carried in the model and proved/refuted "
        "there; it is not reproduced by this check (needs the real cargo-nextest binary: end-to-end rig)",
    ]
    nontrivial = sum(1 for l in lists if len(l) >= 2) + sum(1 for c in cases if c["raw"] != 0)
    # end-to-end: leak verdict under signals that arrive while nextest drains the leaked handles
    try:
        import e2e, units_e2e as U
        ok, _msg = U.regen_table()
        lscs = [dict(u=150, period=20, ta=None, grace=2, leak=2, dur=1.5, hold=6, on_term="exit", sigs=[(2.5, "INT")]),
                dict(u=150, period=20, ta=None, grace=2, leak=3, dur=0.5, hold=7, on_term="exit", sigs=[(1.5, "TERM")]),
                dict(u=150, period=20, ta=None, grace=2, leak=2, dur=1.5, hold=6, on_term="exit", sigs=[]),
                dict(u=150, period=20, ta=None, grace=2, leak=4, dur=1.5, hold=1.5, on_term="exit", sigs=[])]
        U.check_family(chk, e2e.Rig(), lscs, lambda sc, o: U.oracle_common(sc, o) or U.oracle_leak(sc, o), "c03l")
    except RuntimeError as ex:
        chk.violation("broken-obligation", "e2e-build", dict(error=str(ex)[-3000:]), no_input=True)
    # end-to-end: a test binary that cannot be exec'd at run time (made non-executable after listing)
    try:
        stage_unspawnable(chk)
    except RuntimeError as ex:
        chk.violation("broken-obligation", "e2e-build", dict(error=str(ex)[-3000:]), no_input=True)
    # end-to-end stage: generated multi-test runs of the real cargo-nextest over the scripted puppet
    # workspace, judged by this property's oracle (lib/e2e_general.py)
    try:
        import e2e_general
        e2e_general.stage(chk, PROP, tier, seed)
    except RuntimeError as ex:
        chk.violation("broken-obligation", "e2e-build", dict(error=str(ex)[-3000:]), no_input=True)
    return chk.finish(
        gate, "make -C coq Properties/C03.vo && coqc gen/assump_C03.v (Print Assumptions)",
        ["Coq 8.16.1 kernel + vm_compute",
         "hand-written model Model/Classify.v tied by corr:create-execution-result, corr:describe, "
         "corr:detect-leak (hook H3), corr:real-process (real TestRunner over scripted processes)",
         "Python generators/oracles in props/C03.py, props/retry_rig.py", "harness/src/{classify,backoff}.rs"],
        dict(evaluations=chk.counts.get("cer_cases", 0) + chk.counts.get("describe_cases", 0) +
             chk.counts.get("leak_probe_cases", 0) + chk.counts.get("real_process_cases", 0),
             distinct_nontrivial=nontrivial + real_distinct, exhaustive=True,
             rule="create_execution_result: every (exit code 0-255 | signal 1-126 x core bit) x read-error flag x "
                  "leaked flag, enumerated completely; describe: every list of attempt results of length 0.."
                  f"{maxlen} over an 8-result alphabet, enumerated completely; non-trivial = non-zero wait status, "
                  "or at least two attempts; all enumerated cases are distinct by construction; plus timed "
                  "leak probes and real-process runs of the real runner (sampled, not exhaustive; "
                  "distinct by behaviour and documented result)",
             traces_validated_against_impl=chk.counts.get("leak_probe_cases", 0) +
             chk.counts.get("real_process_cases", 0)))


def replay(path, seed):
    d = json.load(open(path))
    print(json.dumps(d, indent=1)[:3000])
    binary, err = vlib.build_harness()
    inp = d.get("input")
    if isinstance(inp, dict) and inp.get("op") == "leak":
        res = vlib.run_impl(binary, "classify", [inp])[0]
        want = doc_leak(inp["timeout"], inp["events"])
        print("impl now:", res, "documented leak:", want)
        return 0 if bool(res[0]) == want else 1
    if isinstance(inp, dict) and "ground_truth" in inp and inp.get("behaviour"):
        g = inp["ground_truth"]
        sc = dict(profile_retries=None, leak_timeout_ms=inp.get("leak_timeout_ms", RIG_LEAK_MS),
                  slow_period_ms=inp.get("slow_timeout_ms", RIG_SLOW_MS),
                  bins={"ba": {inp["test"]: dict(policy=None, default=inp["behaviour"])}}, threads=1)
        case = rig.prepare("c03_replay", sc)
        res = vlib.run_impl(binary, "backoff", [case], shards=1)[0]
        fin = (rig.per_test(res).get(("ba", inp["test"])) or {}).get("finished")
        got = fin and fin["attempts"][-1]["result"]
        rig.cleanup("c03_replay")
        print("impl now:", got, "documented:", doc_real(g))
        return 0 if got == doc_real(g) else 1
    if isinstance(inp, dict) and inp.get("op") == "cer":
        res = vlib.run_impl(binary, "classify", [dict(op="cer", raw=inp["raw"], err=inp["err"],
                                                      leaked=inp["leaked"])])[0]
        want = doc_cer(inp.get("code"), inp.get("sig"), inp["err"], inp["leaked"])
        print("impl now:", res, "documented:", want)
        return 0 if res == want else 1
    if isinstance(inp, list):
        res = vlib.run_impl(binary, "classify", [dict(op="describe", results=inp)])[0]
        want = doc_describe(inp)
        got = None if "panic" in res else norm_desc(res)
        print("impl now:", res, "documented:", want)
        return 0 if got == want else 1
    return 2   # not a kind of record this function knows how to replay (the driver then re-runs the check)



def stage_unspawnable(chk):
    """C03: execution failure iff the process could not be started. The victim's binary (a private copy)
    loses its execute permission after the listing phase; with the double-spawn launcher the exec error
    surfaces as an ordinary failure (known finding F9), without it the result must be exec-fail."""
    import e2e
    rig = e2e.Rig()
    scen = {"bins": {"alpha::t1": {"tests": {"first": {"attempts": [{"sleep": 0.5, "exit": 0}]}}},
                     "beta::t1": {"tests": {"victim": {"attempts": [{"exit": 0}]}}}}}
    cfg = '[profile.default]\nretries = 0\nfail-fast = false\ntest-threads = 1\n'

    def act(ctx):
        os.chmod(ctx["private"]["beta::t1"], 0o644)

    listed = any(f.get("id") == "F9" for f in vlib.known_findings().get("findings", []))
    for ds in (None, "0"):
        env = {} if ds is None else {"NEXTEST_DOUBLE_SPAWN": ds}
        r = rig.run(scen, cfg, private_binaries=["beta::t1"], hooks=[(e2e.tap_has("TestStarted"), act)],
                    env_extra=env)
        fin = [e for e in r["tap"] if e["kind"] == "TestFinished" and e["test"][1] == "victim"]
        kind = fin[0]["statuses"][-1]["result"]["kind"] if fin else None
        chk.count("unspawnable_runs")
        rig.cleanup(r)
        if kind == "exec-fail":
            continue
        if ds is None and kind == "fail" and listed:
            chk.known_finding("F9 test binary cannot be exec'd under the double-spawn launcher: reported FAIL, not EXECFAIL")
            continue
        chk.violation("counterexample", "oracle-e2e:unspawnable",
                      dict(clause=f"the test process could not be started (exec fails with EACCES) but the reported "
                                  f"result is {kind}, not an execution failure", double_spawn=ds is None,
                           scenario=scen, stderr_tail=r["stderr"][-1200:]))
        return
