"""C16 -- captured output is complete, ordered and attributed to the right attempt.

Theorems: Properties/C16.v about Model/Capture.v.
corr:fused-reader  the real FusedBufReader<R> over a scripted in-memory AsyncRead (hook H7) against
                   the model's [fused_trace]: exhaustive over all chunkings of byte strings of length
                   <= 6 with Pending / zero-length read / error placements, seeded chunks up to 64 KiB.
corr:accumulator   the real ChildAccumulator / ChildFds::fill_buf (split and combined) over OS pipes
                   fed by the harness; the schedule select! happened to take (which reader, how many
                   bytes) is read off the implementation's trace and the model must reproduce every
                   intermediate length, done flag and the final bytes.
corr:normalise     Model/CaptureNorm.v (what the stripping / XML crates do to ESC-free text) against the
                   JUnit text and the uncoloured output of the end-to-end runs.
e2e                scripted puppet tests write seeded streams; the event tap's length + xxh64 per
                   attempt and stream, the JUnit system-out/system-err and the output nextest prints
                   are compared with what the puppet wrote (after the documented normalisations,
                   implemented here independently).
Oracles are plain Python and never look at the model."""
import json, os, re, signal, sys, time, concurrent.futures
import xml.etree.ElementTree as ET
import vlib, e2e, gen_tie
from props.C13 import py_xxh64

sys.path.insert(0, e2e.E2E)
import puppet  # noqa: E402  (prng_bytes / stream_bytes: the generator the test processes use)

PROP = "C16"
IMPORTS = ["Base.Str", "Model.Capture"]
PRELUDE = """
Definition b2n (b : bool) : N := if b then 1 else 0.
Definition dig (l : bytes) : list N := lenN l :: fst (wsum l) :: snd (wsum l) :: takeN 64 l.
Definition enc_fused (cap : N) (calls : nat) (s : list sop) : list (list N) :=
  let '(tr, r) := fused_trace cap calls s reader0 in
  (b2n (r_done r) :: dig (r_acc r))
  :: map (fun o : N * bool * bool => [fst (fst o); b2n (snd (fst o)); b2n (snd o)]) tr.
Definition enc_split (cap : N) (co ce : bool) (evs : list ev) : list (list N) :=
  let '(tr, x) := strace cap evs (sst_of co ce) in
  [b2n (fds_done x); b2n (sd_err (st_out x)); b2n (sd_err (st_err x))]
  :: dig (captured SOut x) :: dig (captured SErrS x)
  :: map (fun o : N * bool * N * bool =>
            [fst (fst (fst o)); b2n (snd (fst (fst o))); snd (fst o); b2n (snd o)]) tr.
Definition enc_comb (cap : N) (evs : list ev) : list (list N) :=
  let '(tr, x) := ctrace cap evs cst0 in
  [b2n (r_done (sd_rd (c_side x))); b2n (sd_err (c_side x)); 0]
  :: dig (r_acc (sd_rd (c_side x))) :: dig []
  :: map (fun o : N * bool => [fst o; b2n (snd o); 0; 0]) tr.
"""
CAP = 4096
KNOWN_TABS = ("F13 output shown without colour and JUnit system-out/system-err lose TAB, CR and other "
              "C0/C1 control characters that are valid in XML and are not ANSI escapes (strip-ansi-escapes "
              "drops every control character except LF)")


# ------------------------------------------------------------------------------------------------
# helpers

def compositions(n):
    if n == 0:
        return [[]]
    out = []
    for first in range(1, n + 1):
        for rest in compositions(n - first):
            out.append([first] + rest)
    return out


def split_by(data, comp):
    out, i = [], 0
    for k in comp:
        out.append(data[i:i + k])
        i += k
    return out


def item_bytes(it):
    if it[0] in ("c", "w"):
        return bytes.fromhex(it[-1])
    if it[0] == "g":
        return puppet.prng_bytes(it[-2], it[-1])
    return b""


def coq_bytes(it):
    if it[0] in ("c", "w"):
        return vlib.coq_list([str(x) for x in bytes.fromhex(it[-1])])
    return f"(prng_bytes {it[-2]} {it[-1]})"


def impl_dig(d):
    """harness digest -> what the model's [dig] prints: [len, sum, weighted sum] + the first 64 bytes"""
    return [d["len"], int(d["s1"]), int(d["s2"])] + (list(bytes.fromhex(d["hex"])) if "hex" in d else [])


EMPTY_DIG = [0, 0, 0]


# ------------------------------------------------------------------------------------------------
# corr:fused-reader

def fused_cases(r, thorough):
    cases = []
    for n in range(0, 7):
        data = bytes(range(1, n + 1))
        for comp in compositions(n):
            base = [["c", c.hex()] for c in split_by(data, comp)]
            k = len(base)
            variants = [base, base + [["e"]], base + [["x"]]]
            variants.append([it for c in base for it in (["p"], c)] + [["p"], ["p"]])
            for pos in range(k + 1):
                variants.append(base[:pos] + [["x"]] + base[pos:])
                variants.append(base[:pos] + [["e"]] + base[pos:] + [["c", "ff"]])
            if k:
                pos = r.randrange(k + 1)
                variants.append(base[:pos] + [["c", ""]] + base[pos:])
            for v in variants:
                cases.append(dict(mode="fused", script=v, calls=len(v) + 2))
    sizes = [1, 100, 4095, 4096, 4097, 8191, 8192, 8193, 12289, 20000, 40000, 65536]
    for i in range(80 if thorough else 24):
        script, total = [], 0
        for _ in range(r.randint(1, 6)):
            sz = r.choice(sizes)
            if total + sz > 65536:
                continue
            total += sz
            if r.random() < 0.4:
                script.append(["p"])
            script.append(["g", r.randrange(1, 1 << 30), sz])
        tail = r.choice(["none", "e", "x", "e+more", "x+more"])
        if tail.startswith("e"):
            script.append(["e"])
        if tail.startswith("x"):
            script.append(["x"])
        if tail.endswith("more"):
            script.append(["g", r.randrange(1, 1 << 30), 10])
        calls = sum((len(item_bytes(it)) + CAP - 1) // CAP for it in script) + len(script) + 2
        cases.append(dict(mode="fused", script=script, calls=calls))
    # more than 64 KiB through one reader
    big = [["g", 11, 40000], ["p"], ["g", 12, 40000]]
    cases.append(dict(mode="fused", script=big, calls=26))
    r.shuffle(cases)   # spread the large cases over the coqc shards
    return cases


def coq_script(script):
    its = []
    for it in script:
        its.append({"c": lambda: f"SChunk {coq_bytes(it)}", "g": lambda: f"SChunk {coq_bytes(it)}",
                    "p": lambda: "SPending", "e": lambda: "SEof", "x": lambda: "SErr"}[it[0]]())
    return vlib.coq_list(its)


def script_expected(script):
    """oracle side: the data the scripted reader offers before its first zero-length read / error"""
    out = b""
    for it in script:
        if it[0] == "p":
            continue
        if it[0] in ("e", "x"):
            break
        b = item_bytes(it)
        if not b:
            break
        out += b
    return out


def check_fused(chk, binary, r, thorough):
    cases = fused_cases(r, thorough)
    impl = vlib.run_impl(binary, "reader", cases)
    model = vlib.coq_eval("c16f", IMPORTS, [f"enc_fused {CAP} {c['calls']}%nat {coq_script(c['script'])}"
                                            for c in cases], PRELUDE)
    for c, i, m in zip(cases, impl, model):
        chk.count("fused_cases")
        chk.count("fused_" + ("seeded" if any(it[0] == "g" for it in c["script"]) else "exhaustive"))
        if "panic" in i or i.get("hang"):
            chk.violation("counterexample", "corr:fused-reader", dict(input=c, impl=i, clause="reader hangs or panics"))
            return
        want = script_expected(c["script"])
        got_len, got_h = i["acc"]["len"], int(i["acc"]["xxh64"])
        failed_call = any(t[2] for t in i["trace"])
        if i["done"] and not failed_call:
            ok = (got_len, got_h) == (len(want), py_xxh64(want))
            clause = "reader reached EOF without a failed read but did not accumulate everything offered"
        else:
            ok = got_len <= len(want) and got_h == py_xxh64(want[:got_len])
            clause = "accumulated bytes are not a prefix of what the reader offered"
        impl_obs = [[int(i["done"])] + impl_dig(i["acc"])] + [[t[0], int(t[1]), int(t[2])] for t in i["trace"]]
        model_obs = [m[0][:len(impl_obs[0])]] + m[1:]
        if i.get("chunk_size") != CAP:
            chk.violation("broken-obligation", "corr:fused-reader",
                          dict(input=c, impl_chunk_size=i.get("chunk_size"), model_chunk_size=CAP), no_input=True)
            return
        if not ok:
            chk.violation("counterexample", "corr:fused-reader",
                          dict(input=c, impl=i, model=m, expected_len=len(want), clause=clause))
            return
        if impl_obs != model_obs:
            chk.violation("broken-obligation", "corr:fused-reader",
                          dict(input=c, impl=impl_obs, model=model_obs,
                               note="FusedBufReader and the model disagree; the prefix/complete oracle accepted"),
                          no_input=True)
            return
    chk.sample(dict(fused_case=cases[40], impl={k: impl[40][k] for k in ('trace', 'done', 'acc')}))


# ------------------------------------------------------------------------------------------------
# corr:accumulator (real ChildFds / ChildAccumulator over OS pipes)

def interleave(r, seqs):
    """random merge of the given op sequences keeping each one's order"""
    seqs = [list(s) for s in seqs if s]
    out = []
    while seqs:
        s = r.choice(seqs)
        out.append(s.pop(0))
        if not s:
            seqs.remove(s)
    return out


def pipe_case(r, mode, writes0, writes1, close=(True, True), capture=(True, True)):
    s0 = [w for w in writes0] + ([["c", 0]] if close[0] else [])
    s1 = [w for w in writes1] + ([["c", 1]] if close[1] else [])
    ops = []
    for op in interleave(r, [s0, s1]):
        ops.append(op)
        if r.random() < 0.45:
            ops.append(["r", r.choice([1, 1, 2, 3])])
    ops.append(["d"])
    c = dict(mode=mode, ops=ops)
    if capture != (True, True):
        c["capture"] = list(capture)
    return c


def accumulator_cases(r, thorough):
    cases = []
    reps = 3 if thorough else 1
    for n0 in range(0, 7):
        for n1 in range(0, 7 - n0):
            d0, d1 = bytes(range(1, n0 + 1)), bytes(range(101, 101 + n1))
            for c0 in compositions(n0):
                for c1 in compositions(n1):
                    for _ in range(reps):
                        w0 = [["w", 0, x.hex()] for x in split_by(d0, c0)]
                        w1 = [["w", 1, x.hex()] for x in split_by(d1, c1)]
                        mode = r.choice(["split", "split", "combined"])
                        close = r.choice([(True, True)] * 5 + [(True, False), (False, True), (False, False)])
                        cases.append(pipe_case(r, mode, w0, w1, close))
    # one stream not captured (None in ChildFds::Split)
    for cap in ((True, False), (False, True), (False, False)):
        cases.append(pipe_case(r, "split", [["w", 0, "0102"]], [["w", 1, "0304"]], capture=cap))
    sizes = [0, 1, 100, 4095, 4096, 4097, 8192, 8193, 12289, 20000, 30000]
    for _ in range(100 if thorough else 24):
        ws = [[], []]
        budget = 60000
        for s in (0, 1):
            for _ in range(r.randint(0, 4)):
                sz = r.choice(sizes)
                if sz > budget:
                    continue
                budget -= sz
                ws[s].append(["g", s, r.randrange(1, 1 << 30), sz])
        mode = r.choice(["split", "combined"])
        close = r.choice([(True, True)] * 4 + [(True, False), (False, True)])
        cases.append(pipe_case(r, mode, ws[0], ws[1], close))
    r.shuffle(cases)
    return cases


def events_from_trace(c, res):
    """ops + the implementation's own schedule -> model events; returns (coq events, indices of the
    events that are fill_buf calls, impl observation rows) or a string describing an impossible trace"""
    comb = c["mode"] == "combined"
    evs, idx, rows = [], [], []
    capt = c.get("capture", [True, True])
    prev = [0, False, 0, False] if comb else [0, not capt[0], 0, not capt[1]]
    by_op = {}
    for t in res["trace"]:
        by_op.setdefault(t[0], []).append(t[1:])
    for k, op in enumerate(c["ops"]):
        if op[0] in ("w", "g"):
            evs.append(f"EWrite {'SOut' if op[1] == 0 else 'SErrS'} {coq_bytes(op)}")
        elif op[0] == "c":
            evs.append(f"EClose {'SOut' if op[1] == 0 else 'SErrS'}")
        else:
            for st in by_op.get(k, []):
                cur = [st[4] or 0, bool(st[5]), 0, False] if comb else \
                      [st[0] or 0, st[1] is None or bool(st[1]), st[2] or 0, st[3] is None or bool(st[3])]
                if st[0] is None and not comb:
                    cur[1] = True
                if st[2] is None and not comb:
                    cur[3] = True
                changed = [cur[0] != prev[0] or cur[1] != prev[1], cur[2] != prev[2] or cur[3] != prev[3]]
                if changed[0] and changed[1]:
                    return f"one fill_buf call changed both readers: {prev} -> {cur}"
                if changed[0]:
                    n = cur[0] - prev[0]
                    evs.append(f"EPoll SOut {n if n > 0 else CAP}")
                elif changed[1]:
                    n = cur[2] - prev[2]
                    evs.append(f"EPoll SErrS {n if n > 0 else CAP}")
                else:
                    evs.append("EOther")
                idx.append(len(evs) - 1)
                rows.append([cur[0], int(cur[1]), cur[2], int(cur[3])])
                prev = cur
    return evs, idx, rows


def pipe_expected(c):
    """oracle side: bytes written per stream (combined: in write order) while the descriptor was open"""
    out = [b"", b""]
    comb = b""
    closed = [False, False]
    for op in c["ops"]:
        if op[0] in ("w", "g") and not closed[op[1]]:
            b = item_bytes(op)
            out[op[1]] += b
            comb += b
        elif op[0] == "c":
            closed[op[1]] = True
    return out, comb, closed


def check_accumulator(chk, binary, r, thorough):
    cases = accumulator_cases(r, thorough)
    impl = vlib.run_impl(binary, "reader", cases)
    exprs, meta = [], []
    for c, res in zip(cases, impl):
        chk.count("accumulator_cases")
        chk.count("accumulator_" + c["mode"])
        if "panic" in res or res.get("hang") or res.get("error"):
            if res.get("error") == "script overfills the pipe" or (res.get("pipe_limit", 65536) < 65536):
                chk.count("accumulator_skipped_small_pipe")
                meta.append(None)
                continue
            chk.violation("counterexample", "corr:accumulator",
                          dict(input=c, impl=res, clause="fill_buf hangs although data or EOF is available, or panics"))
            return
        ev = events_from_trace(c, res)
        if isinstance(ev, str):
            chk.violation("broken-obligation", "corr:accumulator", dict(input=c, impl=res, note=ev), no_input=True)
            return
        evs, idx, rows = ev
        cap = c.get("capture", [True, True])
        if c["mode"] == "combined":
            exprs.append(f"enc_comb {CAP} {vlib.coq_list(evs)}")
        else:
            exprs.append(f"enc_split {CAP} {vlib.coq_bool(cap[0])} {vlib.coq_bool(cap[1])} {vlib.coq_list(evs)}")
        meta.append((c, res, idx, rows))
    model = vlib.coq_eval("c16a", IMPORTS, exprs, PRELUDE)
    mi = iter(model)
    shown = 0
    for mt in meta:
        if mt is None:
            continue
        c, res, idx, rows = mt
        m = next(mi)
        comb = c["mode"] == "combined"
        (want_out, want_err), want_comb, closed = pipe_expected(c)
        fr = res["frozen"]
        cap = c.get("capture", [True, True])
        # ---- oracle on the implementation's final state
        why = None
        streams = [("combined", want_comb, fr["combined"], fr["combined_done"], closed[0] and closed[1])] if comb else \
                  [("stdout", want_out, fr["stdout"], fr["stdout_done"], closed[0]),
                   ("stderr", want_err, fr["stderr"], fr["stderr_done"], closed[1])]
        for name, want, got, done, was_closed in streams:
            if got is None:
                continue
            ln, h = got["len"], int(got["xxh64"])
            if name in fr["errors"]:
                continue
            if done and (ln, h) != (len(want), py_xxh64(want)):
                why = f"{name}: reader reached EOF with {ln} bytes, {len(want)} were written (or the bytes differ)"
            elif ln > len(want) or h != py_xxh64(want[:ln]):
                why = f"{name}: accumulated bytes are not a prefix of what was written"
            elif was_closed and not done:
                why = f"{name}: every write end is closed and the drain ran, yet the reader is not done"
        if fr["errors"]:
            why = why or f"unexpected read errors {fr['errors']}"
        if why:
            chk.violation("counterexample", "corr:accumulator", dict(input=c, impl=res, model=m, clause=why))
            return
        # ---- model vs implementation: every intermediate length / done flag, final digests
        m_rows = [m[3 + k] for k in idx]
        if comb:
            i_rows = [[a, b, 0, 0] for a, b, _, _ in rows]
            i_fin = [impl_dig(fr["combined"])[:3], EMPTY_DIG]
            i_flags = [int(fr["all_done"]), 0, 0]
        else:
            i_rows = rows
            i_fin = [impl_dig(fr["stdout"])[:3] if fr["stdout"] else EMPTY_DIG,
                     impl_dig(fr["stderr"])[:3] if fr["stderr"] else EMPTY_DIG]
            i_flags = [int(fr["all_done"]), 0, 0]
        m_fin = [m[1][:3], m[2][:3]]
        if i_rows != m_rows or i_fin != m_fin or i_flags != m[0]:
            chk.violation("broken-obligation", "corr:accumulator",
                          dict(input=c, impl_rows=i_rows, model_rows=m_rows, impl_final=i_fin, model_final=m_fin,
                               impl_flags=i_flags, model_flags=m[0],
                               note="ChildAccumulator and the model disagree on the implementation's own schedule; "
                                    "the completeness/prefix oracle accepted"), no_input=True)
            return
        if shown < 1 and len(idx) > 3:
            shown += 1
            chk.sample(dict(accumulator_case=c, fill_buf_calls=len(idx), frozen=fr))


# ------------------------------------------------------------------------------------------------
# end to end: normalisations (independent of nextest's crates)

ANSI_RE = re.compile(
    "\x1b\\[[0-?]*[ -/]*[@-~]"              # CSI
    "|\x1b\\][^\x07\x1b]*(?:\x07|\x1b\\\\)"   # OSC ... BEL | ST
    "|\x1b[PX^_][^\x1b]*\x1b\\\\"            # DCS / SOS / PM / APC ... ST
    "|\x1b[ -/]*[0-~]")                      # two-character and nF escapes
UNTERMINATED_RE = re.compile(
    "\x1b\\[[0-?]*[ -/]*$"                     # CSI without a final byte
    "|\x1b\\][^\x07\x1b]*$"                    # OSC without BEL / ST
    "|\x1b[PX^_][^\x1b]*$")                    # DCS / SOS / PM / APC without ST
XML_INVALID = re.compile("[\x00-\x08\x0b\x0c\x0e-\x1f￾￿]")
CTRL = re.compile("[\x00-\x09\x0b-\x1f\x80-\x9f]")


def lossy(b):
    return b.decode("utf-8", errors="replace")


def strip_ansi(s):
    """ANSI escapes removed; a sequence the stream ends in the middle of is an escape too (to the end of the
    stream: an escape sequence never spans two streams or two attempts)"""
    # an introducer (CSI, OSC, DCS / SOS / PM / APC) whose sequence is never completed swallows the rest
    m = UNTERMINATED_RE.search(s)
    if m:
        s = s[:m.start()]
    t = ANSI_RE.sub("", s)
    j = t.find("\x1b")
    return t if j < 0 else t[:j]


def doc_junit(b):
    """documented: lossy UTF-8, ANSI escapes removed, characters invalid in XML removed"""
    return XML_INVALID.sub("", strip_ansi(lossy(b)))


def doc_display(b):
    """documented (colour off): lossy UTF-8, ANSI escapes removed, a final newline"""
    body = b[:-1] if b.endswith(b"\n") else b
    return strip_ansi(lossy(body)) + "\n"


def lenient(s):
    return CTRL.sub("", s).replace("�", "")


def has_ctrl(b):
    return bool(CTRL.search(ANSI_RE.sub("", lossy(b))))


WORDS = ["alpha", "beta", "gamma", "x", "yy", "zzz", "lorem", "ipsum", "q1", "w22"]
PLAIN = ["é", "漢", "😀", " ", " ", " ", "\n", "\n", ".", ",", "&", "<", ">", "\"", "'", "]]>", "<![CDATA[",
         "&lt;", "&#0;", "%", "\x7f"]
ESCS = ["\x1b[31m", "\x1b[0m", "\x1b[1;32m", "\x1b[2K", "\x1b[10;20H", "\x1b[?25l", "\x1b[38;5;196m",
        "\x1b]0;title\x07", "\x1b]8;;http://x/y\x1b\\", "\x1bc", "\x1b(B", "\x1b7"]
XMLBAD = [b"\x00", b"\x01", b"\x08", b"\x0b", b"\x0c", b"\x0e", b"\x1f"]
BADUTF = [b"\xff", b"\xc3", b"\xe2\x82", b"\xf0\x9f\x98", b"\xc0\xaf", b"\xed\xa0\x80", b"\xf8\x88", b"\xfe"]
CTRLS = [b"\t", b"\r", b"\r\n", b"\xc2\x85", b"\xc2\x9b"]
STATUSLIKE = re.compile(r"^\s*(?:TRY \d+ )?[A-Z][A-Za-z0-9 /:-]*\[[ 0-9.s]*\] |^(?:─|-){4}|^error: |^Error: |^thread '"
                        r"|^\s*Cancel|^warning: |^info: ", re.M)


def gen_text(r, classes, length):
    """token stream: words/punctuation/ANSI escapes always; `classes` adds xml-invalid, bad UTF-8, ctrl"""
    while True:
        out = []
        for _ in range(length):
            k = r.random()
            if k < 0.45:
                out.append(r.choice(WORDS).encode())
            elif k < 0.75:
                out.append(r.choice(PLAIN).encode())
            elif k < 0.85:
                out.append(r.choice(ESCS).encode())
            elif k < 0.90 and "xml" in classes:
                out.append(r.choice(XMLBAD))
            elif k < 0.95 and "utf" in classes:
                out.append(r.choice(BADUTF) + r.choice(WORDS).encode())
            elif "ctrl" in classes:
                out.append(r.choice(CTRLS))
            else:
                out.append(b" ")
        b = b"".join(out)
        if not STATUSLIKE.search(lossy(b)) and not b.endswith(b"\x1b") and b"\n\x1b" not in b[-12:]:
            return b


def spec_bytes(spec):
    return puppet.stream_bytes(spec) if spec is not None else b""


def attempt_bytes(beh):
    if beh.get("terminated"):   # never reaches its normal end: writes `term_*` when SIGTERM arrives
        return (spec_bytes(beh.get("stdout")) + spec_bytes(beh.get("term_stdout")),
                spec_bytes(beh.get("stderr")) + spec_bytes(beh.get("term_stderr")))
    return (spec_bytes(beh.get("stdout")) + spec_bytes(beh.get("final_stdout")),
            spec_bytes(beh.get("stderr")) + spec_bytes(beh.get("final_stderr")))


def attempt_combined(beh):
    return (spec_bytes(beh.get("stdout")) + spec_bytes(beh.get("stderr")) +
            spec_bytes(beh.get("final_stdout")) + spec_bytes(beh.get("final_stderr")))


BINS = ["alpha::t1", "alpha::t2", "beta::t1", "beta::t2"]


def textual(beh, keys):
    """can this file compute the stream's normal form? (token streams and printable ASCII: yes;
    seeded binary streams may contain ESC bytes anywhere: compared by digest, and raw with colour)"""
    for key in keys:
        s = beh.get(key)
        if s is not None and "hex" not in s and "text" not in s and not s.get("ascii"):
            return False
    return True


OUT_KEYS, ERR_KEYS = ("stdout", "final_stdout", "term_stdout"), ("stderr", "final_stderr", "term_stderr")


def gen_stream(r, kind, big_ok=True):
    """a puppet stream spec; `kind`: bin (seeded bytes) | ascii | text:<classes>"""
    if kind.startswith("text"):
        classes = kind.split(":")[1].split("+") if ":" in kind else []
        b = gen_text(r, classes, r.choice([0, 1, 3, 12, 40, 200]))
        spec = {"hex": b.hex()}
    else:
        sizes = [0, 1, 2, 100, 4095, 4096, 4097, 8192, 65535, 65536, 65537]
        if big_ok:
            sizes += [200000, 300001]
        spec = {"seed": r.randrange(1, 1 << 40), "size": r.choice(sizes)}
        if kind == "ascii":
            spec["ascii"] = True
    n = len(spec_bytes(spec))
    mode = r.choice(["single", "single", "bursts", "bytewise"])
    if mode == "bytewise" and n <= 300:
        spec["mode"] = "bytewise"
    elif mode == "bursts" and n > 1:
        spec["mode"] = "bursts"
        spec["burst"] = r.choice([1, 7, 1000, 4096, 4097, 30000, 70000])
        if n // spec["burst"] > 400:
            spec["burst"] = max(spec["burst"], n // 200)
        if r.random() < 0.5:
            spec["pause"] = r.choice([0.001, 0.003])
            if n // spec["burst"] > 40:
                spec["pause"] = 0.001
    return spec


def gen_run(r, idx, flavour, thorough):
    """one nextest invocation: (scenario, meta). flavour: mixed | text | colour | combined | big"""
    ntests = r.choice([1, 2, 3, 4, 6, 8]) if flavour != "big" else r.choice([1, 2])
    retries = r.choice([0, 0, 1, 2])
    bins, tests = {}, []
    for t in range(ntests):
        b = r.choice(BINS)
        name = r.choice(["t", "mod_a::t", "mod_b::deep::t"]) + str(t)
        natt = retries + 1
        outcome = r.choice(["pass", "pass", "fail", "flaky"]) if retries else r.choice(["pass", "fail"])
        atts = []
        for k in range(1, natt + 1):
            if flavour in ("text", "combined"):
                kinds = [r.choice(["text", "text:xml", "text:utf", "text:xml+utf", "text:ctrl", "ascii"]) for _ in range(4)]
            elif flavour == "big":
                kinds = ["bin"] * 4
            else:
                kinds = [r.choice(["bin", "bin", "ascii", "text:xml+utf"]) for _ in range(4)]
            beh = {}
            if r.random() < 0.85:
                beh["stdout"] = gen_stream(r, kinds[0], big_ok=flavour != "colour")
            if r.random() < 0.85:
                beh["stderr"] = gen_stream(r, kinds[1], big_ok=flavour != "colour")
            if r.random() < 0.5:
                beh["final_stdout"] = gen_stream(r, kinds[2], big_ok=False)
            if r.random() < 0.5:
                beh["final_stderr"] = gen_stream(r, kinds[3], big_ok=False)
            if flavour == "big" and k == 1:
                size = r.choice([1 << 20, (1 << 20) + 1] + ([1 << 24] if thorough else []))
                beh[r.choice(["stdout", "stderr"])] = {"seed": r.randrange(1, 1 << 40), "size": size,
                                                       "mode": r.choice(["single", "bursts"]), "burst": 65536}
                beh["final_stdout"] = {"seed": r.randrange(1, 1 << 40), "size": r.choice([1, 4096, 65536, 100000])}
            if r.random() < 0.3:
                beh["sleep"] = r.choice([0.01, 0.05])
            last = k == natt
            if outcome == "pass":
                beh["exit"] = 0
            elif outcome == "fail":
                beh["exit"] = r.choice([1, 3, 101])
            else:  # flaky: fails, then passes at attempt 2
                beh["exit"] = 1 if k < 2 else 0
            atts.append(beh)
        bins.setdefault(b, {"tests": {}})["tests"][name] = {"attempts": atts}
        tests.append((b, name))
    profile = f"c16p{idx}"
    cfg = (f'[profile.{profile}]\nretries = {retries}\nfail-fast = false\nleak-timeout = "30s"\n'
           f'slow-timeout = {{ period = "60s" }}\n'
           f'[profile.{profile}.junit]\npath = "junit.xml"\nstore-success-output = true\nstore-failure-output = true\n')
    args = ["--profile", profile, "--no-fail-fast", "--test-threads", str(r.choice([ntests, ntests, max(1, ntests // 2)])),
            "--success-output", "immediate", "--failure-output", "immediate"]
    env = {}
    if flavour == "colour":
        args += ["--color", "always"]
        env["CARGO_TERM_COLOR"] = "always"
    if flavour == "combined":
        args += ["--message-format", "libtest-json"]
        env["NEXTEST_EXPERIMENTAL_LIBTEST_JSON"] = "1"
    return dict(idx=idx, flavour=flavour, scenario={"bins": bins}, config=cfg, args=args, env=env,
                profile=profile, retries=retries, tests=tests,
                check_display=flavour in ("text", "colour", "combined"))


def fixed_run(idx, name, tests, flavour="text", retries=0, leak="30s"):
    """tests: {test name: [attempt behaviours]} in alpha::t1"""
    profile = f"c16p{idx}"
    cfg = (f'[profile.{profile}]\nretries = {retries}\nfail-fast = false\nleak-timeout = "{leak}"\n'
           f'[profile.{profile}.junit]\npath = "junit.xml"\nstore-success-output = true\nstore-failure-output = true\n')
    args = ["--profile", profile, "--no-fail-fast", "--test-threads", str(max(1, len(tests))),
            "--success-output", "immediate", "--failure-output", "immediate"]
    env = {}
    if flavour == "colour":
        args += ["--color", "always"]
        env["CARGO_TERM_COLOR"] = "always"
    if flavour == "combined":
        args += ["--message-format", "libtest-json"]
        env["NEXTEST_EXPERIMENTAL_LIBTEST_JSON"] = "1"
    bins = {"alpha::t1": {"tests": {t: {"attempts": a} for t, a in tests.items()}}}
    return dict(idx=idx, flavour=flavour, scenario={"bins": bins}, config=cfg, args=args, env=env, profile=profile,
                retries=retries, tests=[("alpha::t1", t) for t in tests], check_display=flavour != "mixed", name=name)


def hx(b):
    return {"hex": b.hex()}


def fixed_runs(start):
    """corner cases and the known-finding witnesses, always run first"""
    sizes = [0, 1, 4095, 4096, 4097, 65536, 65537, 131073]
    runs = [
        # every size class at once, eight tests running concurrently, a burst right before _exit
        fixed_run(start, "sizes", {f"s{n}": [{"stdout": {"seed": 100 + n, "size": n}, "stderr": {"seed": 200 + n, "size": n, "mode": "bursts", "burst": 4097},
                                              "final_stdout": {"seed": 300 + n, "size": n % 5000}, "final_stderr": {"seed": 400 + n, "size": 3}, "exit": 0}]
                                   for n in sizes}, flavour="mixed"),
        # retries: attempt k writes a stream that depends on k
        fixed_run(start + 1, "retries", {"flaky": [{"stdout": hx(b"attempt one\n"), "stderr": hx(b"E1"), "exit": 1},
                                                    {"stdout": hx(b"attempt two\n"), "final_stderr": hx(b"E2\n"), "exit": 1},
                                                    {"stdout": hx(b"attempt three"), "stderr": hx(b"E3\n\n"), "exit": 0}],
                                         "always": [{"stdout": hx(b"f%d\n" % k), "stderr": hx(b"g%d" % k), "exit": 7} for k in (1, 2, 3)]},
                  retries=2),
        # invalid UTF-8, NUL, ESC sequences, ]]> -- the documented normalisations
        fixed_run(start + 2, "normalise", {"n": [{"stdout": hx(b"a\xffb\x00c\x1b[31mred\x1b[0m ]]> <&> \xe2\x82"),
                                                  "stderr": hx("é漢😀\x1b]0;t\x07x\n\nlast".encode()), "exit": 1}]}),
        fixed_run(start + 3, "colour", {"c": [{"stdout": hx(b"a\xffb\x00c\x1b[31mred ]]>\n"), "stderr": {"seed": 9, "size": 5000},
                                               "final_stderr": hx(b"tail"), "exit": 1}]}, flavour="colour"),
        fixed_run(start + 4, "combined", {"m": [{"stdout": hx(b"out1\n"), "stderr": hx(b"err1\n"), "final_stdout": hx(b"out2"),
                                                 "final_stderr": hx(b"err2"), "exit": 1}],
                                          "big": [{"stdout": {"seed": 5, "size": 70000, "ascii": True}, "stderr": {"seed": 6, "size": 3, "ascii": True}, "exit": 0}]},
                  flavour="combined"),
        # the libtest-json report of failed tests under combined capture: a standard-harness transcript whose own
        # output contains status lines of other (longer) names, one without the harness lines, one ending exactly
        fixed_run(start + 8, "combined-report", {
            "fixtures": [{"stdout": hx(b"\nrunning 1 test\ntest fixtures::case_1 ... ok\ntest fixtures::case_2 ... FAILED\n"
                                        b"detail of case_2\ntest fixtures_more ... FAILED\nsummary: 1 of 2 failed\n"
                                        b"test fixtures ... FAILED\n\nfailures:\n\nfailures:\n    fixtures\n"), "exit": 101}],
            "custom": [{"stdout": hx(b"custom harness says\ntest custom ... FAILED\nand goes on\xff"), "exit": 2}],
            "fine": [{"stdout": hx(b"\nrunning 1 test\ntest fine ... ok\n"), "exit": 0}]}, flavour="combined"),
        # a stream that ends inside an escape sequence (unterminated OSC title, half a colour sequence, a lone ESC):
        # the other stream of the same attempt is still shown completely, header included
        fixed_run(start + 7, "unterminated-escape", {
            "osc": [{"stdout": hx(b"before \x1b]0;window title never terminated"), "stderr": hx(b"ERR-MARKER-OSC line\n"), "exit": 1}],
            "csi": [{"stdout": hx(b"text \x1b[3"), "stderr": hx(b"ERR-MARKER-CSI line\n"), "exit": 1}],
            "esc": [{"stdout": hx(b"tail\x1b"), "stderr": hx(b"ERR-MARKER-ESC line\n"), "exit": 1}],
            "rev": [{"stderr": hx(b"e\x1b]0;t"), "stdout": hx(b"OUT-MARKER-REV line\n"), "exit": 1}]}, flavour="mixed"),
        # witness of the known finding F13 and regression witness of the repaired F14
        fixed_run(start + 5, "witness-F13", {"tabs": [{"stdout": hx(b"col1\tcol2\r\nend\n"), "exit": 1}]}),
        fixed_run(start + 6, "witness-F14", {"nonchar": [{"stdout": hx("x￿y\n".encode()), "exit": 1}]}),
    ]
    return runs


def terminate_run(idx):
    """a test that is terminated for a timeout and, on SIGTERM, still writes more than a pipe holds
    before it exits: the loop waiting out the grace period (terminate_child) must keep reading"""
    run = fixed_run(idx, "terminate", {"slowpoke": [{
        "stdout": {"seed": 77, "size": 5000}, "stderr": hx(b"started\n"), "sleep": 60, "on_term": "exit",
        "term_stdout": {"seed": 78, "size": 300000, "mode": "bursts", "burst": 50000},
        "term_stderr": {"seed": 79, "size": 70000}, "terminated": True, "term_exit": 1, "log_written": True}]},
                    flavour="mixed")
    run["config"] = run["config"].replace("fail-fast = false\n", "fail-fast = false\n"
                                          'slow-timeout = { period = "1s", terminate-after = 1, grace-period = "45s" }\n')
    return run


def info_run(idx, flavour):
    """information requests (SIGUSR1) while a test is in the middle of its output: the snapshot shown in
    the info response must not take anything away from what is captured for the attempt"""
    run = fixed_run(idx, "info-" + flavour, {"chatty": [{
        "stdout": {"seed": 91, "size": 5000, "ascii": True}, "stderr": hx(b"early-err\n"), "log_written": True,
        "sleep": 1.4, "final_stdout": {"seed": 92, "size": 3000, "ascii": True}, "final_stderr": hx(b"late-err\n"),
        "exit": 3}]}, flavour=flavour)
    run["info"] = True
    return run


SCRIPT_OUT = bytes(range(256)) * 300 + b"tail"
SCRIPT_ERR = b"script-err\n"
SCRIPT_CODE = ("import os\n"
               "d = bytes(range(256)) * 300\n"
               "o = 0\n"
               "while o < len(d):\n"
               "    o += os.write(1, d[o:])\n"
               "os.write(2, b'script-err\\n')\n"
               "os.write(1, b'tail')\n")


def script_run(idx):
    """a setup script (the same accumulator, the wait loop of run_setup_script) writing more than a
    pipe holds, then a burst right before it exits"""
    run = fixed_run(idx, "setup-script", {"after_script": [{"stdout": hx(b"ok\n"), "exit": 0}]}, flavour="mixed")
    prof = run["profile"]
    run["config"] = ('experimental = ["setup-scripts"]\n' + run["config"] +
                     f'[[profile.{prof}.scripts]]\nfilter = "all()"\nsetup = "c16script"\n'
                     f'[script.c16script]\ncommand = ["/usr/bin/python3", "-S", "-c", {json.dumps(SCRIPT_CODE)}]\n'
                     'capture-stdout = true\ncapture-stderr = true\n')
    run["script"] = True
    return run


def oracle_script(run, res):
    evs = [e for e in res["tap"] if e.get("kind") == "SetupScriptFinished"]
    if len(evs) != 1:
        return [f"setup-script run: {len(evs)} SetupScriptFinished events: {res['stderr'][-500:]}"]
    o = evs[0]["status"]["output"]
    fails = []
    for nm, want in (("stdout", SCRIPT_OUT), ("stderr", SCRIPT_ERR)):
        got = o.get(nm)
        if got is None or (got["len"], int(got["xxh64"])) != (len(want), py_xxh64(want)):
            fails.append(f"setup script: captured {nm} is {got}, the script wrote {len(want)} bytes")
    return fails


LEAK_X = b"before-exit\n"


LOG_W = 32


def logger_expected(tag, nlines, combined):
    """the deterministic stream(s) a `logger` behaviour writes: per stream, or in write order"""
    out = [puppet.logger_line(tag, "stdout", n, LOG_W) for n in range(nlines)]
    err = [puppet.logger_line(tag, "stderr", n, LOG_W) for n in range(nlines)]
    if combined:
        return b"".join(x for pair in zip(out, err) for x in pair)
    return b"".join(out), b"".join(err)


def kill_run(idx, name, ntests, flavour, grace_ms, stop=False, period_ms=400):
    """tests that never stop logging and are killed for a timeout (grace 0: SIGKILL at once; grace > 0:
    they ignore SIGTERM and keep logging until the SIGKILL). What was in the pipe when the test died
    must still be captured. stop: nextest itself is SIGSTOPped across the deadline and continued."""
    # a lightly paced logger (one short sleep per pair of lines) keeps the volume at a few hundred KB
    # per test; while nextest is stopped an unpaced one fills the pipe and keeps it full
    tests = {f"lg{t}": [{"logger": {"tag": f"r{idx}t{t}", "width": LOG_W, "count_file": f"count-lg{t}.bin",
                                    "every": 0 if stop else 0.00001},
                         "on_term": "ignore", "tstp": "ignore"}] for t in range(ntests)}
    run = fixed_run(idx, name, tests, flavour=flavour)
    run["config"] = run["config"].replace(
        "fail-fast = false\n", "fail-fast = false\n"
        f'slow-timeout = {{ period = "{period_ms}ms", terminate-after = 1, grace-period = "{grace_ms}ms" }}\n')
    run["kill"] = True
    run["stop"] = stop
    return run


def kill_runs(start, r, thorough):
    specs = [("kill-grace0-1", 1, "text", 0, False), ("kill-grace0-8", 8, "text", 0, False),
             ("kill-grace0-1-combined", 1, "combined", 0, False), ("kill-grace0-8-combined", 8, "combined", 0, False),
             ("kill-stopped-across-deadline", 1, "text", 0, True),
             ("kill-stopped-across-deadline-combined", 2, "combined", 0, True),
             ("kill-sigterm-ignored", 2, "text", 250, False),
             ("kill-sigterm-ignored-combined", 1, "combined", 250, False)]
    if thorough:
        specs = specs * 4 + [("kill-sigterm-ignored-stopped", 3, "text", 250, True)] * 3
    return [kill_run(start + i, nm, n, fl, g, st, period_ms=r.choice([300, 400, 500]))
            for i, (nm, n, fl, g, st) in enumerate(specs)]


def kill_signals(run):
    """SIGSTOP nextest as soon as the first logger has started, SIGCONT it well after the deadline"""
    if run.get("info"):
        seen = [None]

        def after(dt):
            def f(ctx):
                if seen[0] is None and e2e.log_has("written", test="chatty")(ctx):
                    seen[0] = time.monotonic()
                return seen[0] is not None and time.monotonic() >= seen[0] + dt
            return f
        return [(after(0.3), signal.SIGUSR1), (after(0.7), signal.SIGUSR1)]
    if not run.get("stop"):
        return ()
    t = [None]

    def later(ctx):
        t[0] = t[0] or time.monotonic()
        return time.monotonic() >= t[0] + 1.2

    return [(e2e.log_has("start", test="lg0"), signal.SIGSTOP), (later, signal.SIGCONT)]


def oracle_kill(run, res):
    fails, cnt = [], {}
    comb = run["flavour"] == "combined"
    if res["timed_out"] or res["rc"] not in (0, 100):
        return [f"nextest exited with {res['rc']} (timed out: {res['timed_out']}): {res['stderr'][-600:]}"], cnt
    fin = {e["test"][1]: e["statuses"] for e in res["tap"] if e.get("kind") == "TestFinished"}
    path = os.path.join(res["junit_dir"], run["profile"], "junit.xml")
    try:
        root = ET.parse(path).getroot()
        cases = {tc.get("name"): tc for suite in root.findall("testsuite") for tc in suite.findall("testcase")}
    except (ET.ParseError, OSError) as ex:
        return [f"JUnit report {path} is not well-formed XML / missing: {ex}"], cnt
    blocks = display_blocks(res["stderr"], False)
    seen = set()
    for (b, name) in run["tests"]:
        beh = run["scenario"]["bins"][b]["tests"][name]["attempts"][0]
        tag = beh["logger"]["tag"]
        counts = [0, 0]
        try:
            raw = open(os.path.join(res["dir"], beh["logger"]["count_file"]), "rb").read()
            counts = [int.from_bytes(raw[0:8], "little"), int.from_bytes(raw[8:16], "little")]
        except OSError:
            pass
        sts = fin.get(name)
        if not sts:
            fails.append(f"{b} {name}: no TestFinished event")
            continue
        o = sts[0]["output"]
        cnt["kill_attempts"] = cnt.get("kill_attempts", 0) + 1
        cnt["kill_" + sts[0]["result"]["kind"]] = cnt.get("kill_" + sts[0]["result"]["kind"], 0) + 1
        if comb:
            streams = [("combined", "OUTPUT", "system-out", counts[0] + counts[1], o.get("combined"))]
        else:
            streams = [("stdout", "STDOUT", "system-out", counts[0], o.get("stdout")),
                       ("stderr", "STDERR", "system-err", counts[1], o.get("stderr"))]
        for sname, kind, tag_xml, confirmed, got in streams:
            seen.add((b, name, 1, kind))
            if got is None:
                fails.append(f"{b} {name}: {sname} not captured")
                continue
            ln = got["len"]
            nl = ln // LOG_W + 1
            exp = logger_expected(tag, nl, True) if comb else logger_expected(tag, nl, False)[0 if sname == "stdout" else 1]
            cnt["kill_bytes"] = cnt.get("kill_bytes", 0) + ln
            if ln < confirmed * LOG_W:
                fails.append(f"{b} {name}: captured {sname} has {ln} bytes, but the test had completely written "
                             f"{confirmed * LOG_W} bytes ({confirmed} lines) to it before it was killed: "
                             f"{confirmed * LOG_W - ln} bytes that were in the pipe when the test died are lost")
                continue
            if ln % LOG_W or ln > (confirmed + 1) * LOG_W or int(got["xxh64"]) != py_xxh64(exp[:ln]):
                fails.append(f"{b} {name}: captured {sname} ({ln} bytes, {confirmed} lines confirmed written) is not a "
                             f"prefix of the test's own line stream")
                continue
            text = exp[:ln].decode()
            tc = cases.get(name)
            node = tc.find(tag_xml) if tc is not None else None
            if node is None or (node.text or "") != text:
                have = None if node is None else len(node.text or "")
                fails.append(f"JUnit: {b} {name} {tag_xml} has {have} characters, the captured stream has {ln}")
            got_blocks = blocks.get((b, name, 1, kind), [])
            seen.add((b, name, 1, kind))
            if ln and (len(got_blocks) != 1 or got_blocks[0] != text):
                fails.append(f"display: {b} {name} {kind} is shown {len(got_blocks)} times / differs from the "
                             f"captured stream ({ln} bytes)")
    if set(blocks) - seen:
        fails.append(f"display: output blocks for attempts that do not exist: {sorted(set(blocks) - seen)[:4]}")
    return fails, cnt


def leak_run(idx):
    run = fixed_run(idx, "leak", {"leaky": [{"stdout": hx(LEAK_X), "exit": 0,
                                             "child": {"for": 1.0, "hold": ["stdout"], "write_every": 0.05}}]},
                    flavour="mixed", leak="300ms")
    run["leak"] = True
    return run


def oracle_leak(run, res):
    """a descendant keeps stdout open and keeps writing 'w': whatever the verdict, what is stored is
    the test's own bytes plus some of the descendant's, nothing else (C16_prefix_on_leak)"""
    for e in res["tap"]:
        if e.get("kind") == "TestFinished":
            got = e["statuses"][0]["output"].get("stdout")
            if got is None:
                return ["leak run: stdout not captured"]
            extra = got["len"] - len(LEAK_X)
            for i in range(0, max(0, min(extra, 8)) + 1):
                if extra >= 0 and py_xxh64(b"w" * i + LEAK_X + b"w" * (extra - i)) == int(got["xxh64"]):
                    return []
            return [f"leak run: captured stdout ({got['len']} bytes) is not the test's bytes interleaved with the "
                    f"descendant's"]
    return [f"leak run: no TestFinished event: {res['stderr'][-400:]}"]



HDR = re.compile(r"^(?:─{4}|-{4}) (?:TRY (\d+) )?(STDOUT|STDERR|OUTPUT):\s+(\S+) (\S+)$")
STATUS = re.compile(r"^\s*(?:TRY \d+ )?[A-Z][A-Za-z0-9 /:-]*\[[ 0-9.s]*\] |^(?:─|-){12}$|^error: |^\s*Cancel|^warning: |^info: ")
SGR = re.compile(rb"\x1b\[[0-9;]*m")


def display_blocks(data, raw):
    """output blocks nextest printed: {(binary, test, try, kind): [body, ...]}; `raw`: bytes with colour"""
    nl = b"\n" if raw else "\n"
    lines = data.split(nl)
    blocks, cur, body = {}, None, []

    def plain(l):
        return SGR.sub(b"", l).decode("utf-8", errors="replace") if raw else l

    def close(last_of_attempt):
        nonlocal cur, body
        if cur is not None:
            if last_of_attempt and body and body[-1] == (b"" if raw else ""):
                body = body[:-1]
            blocks.setdefault(cur, []).append(nl.join(body) + nl)
        cur, body = None, []

    for l in lines:
        p = plain(l)
        m = HDR.match(p)
        if m:
            close(False)
            cur = (m.group(3), m.group(4), int(m.group(1) or 1), m.group(2))
        elif cur is not None and STATUS.match(p):
            close(True)
        elif cur is not None:
            body.append(l)
    close(True)
    return blocks


def libtest_report_text(data, test_name):
    """what the libtest-json report stores as a failed test's output (nextest-runner reporter/structured/libtest.rs,
    written from its documentation comment, not from the code): for the standard harness -- recognised by the line
    "running 1 test" -- the lines between that line and the harness's own closing line "test <name> ... FAILED"
    (exactly this test's name); for any other harness the whole captured output. Lossy UTF-8 either way."""
    if b"running 1 test\n" not in data:
        return lossy(data)
    lines = data.split(b"\n")
    if lines and lines[-1] == b"":
        lines.pop()
    lines = [l[:-1] if l.endswith(b"\r") else l for l in lines]
    i = lines.index(b"running 1 test") if b"running 1 test" in lines else len(lines)
    out = []
    for l in lines[i + 1:]:
        if l == b"test " + test_name.encode() + b" ... FAILED":
            break
        out.append(lossy(l) + "\n")
    return "".join(out)


def oracle_libtest_report(run, res, fin):
    """combined capture: the `stdout` field of every failed test in the libtest-json report holds the captured bytes"""
    fails, n = [], 0
    scen = run["scenario"]["bins"]
    got = {}
    for line in res.get("stdout", "").split("\n"):     # not splitlines(): NEL / U+2028 occur raw inside the strings
        try:
            ev = json.loads(line)
        except ValueError:
            continue
        if ev.get("type") == "test" and ev.get("event") == "failed" and "$" in ev.get("name", ""):
            b_, n_ = ev["name"].split("$", 1)
            got[(b_, re.sub(r"#\d+$", "", n_))] = ev.get("stdout")      # retried tests carry "#<attempt>"
    for (b, name) in run["tests"]:
        sts = fin.get((b, name))
        if not sts or sts[-1]["result"]["kind"] in ("pass", "leak"):
            continue
        atts = scen[b]["tests"][name]["attempts"]
        beh = atts[min(sts[-1]["attempt"], len(atts)) - 1]
        if beh.get("terminated") or not textual(beh, OUT_KEYS + ERR_KEYS):
            continue
        want = libtest_report_text(attempt_combined(beh), name)
        n += 1
        if (b, name) not in got:
            fails.append(f"libtest-json report: no `failed` event for {b} {name}")
        elif (got[(b, name)] or "") != want:
            fails.append(f"libtest-json report: {b} {name} stores {(got[(b, name)] or '')[:300]!r}, the test wrote "
                         f"{attempt_combined(beh)[:300]!r} -> documented {want[:300]!r}")
    return fails, n


def oracle_run(run, res):
    """-> (list of failing clauses, list of known findings observed, counters)"""
    fails, known, cnt = [], [], {}
    scen = run["scenario"]["bins"]
    comb = run["flavour"] == "combined"
    if res["timed_out"] or res["rc"] not in (0, 100):
        return [f"nextest exited with {res['rc']} (timed out: {res['timed_out']}): {res['stderr'][-600:]}"], known, cnt
    fin = {}
    for e in res["tap"]:
        if e.get("kind") == "TestFinished":
            fin[(e["test"][0], e["test"][1])] = e["statuses"]
        if e.get("kind") == "TestAttemptFailedWillRetry":
            fin.setdefault(("retry", e["test"][0], e["test"][1], e["status"]["attempt"]), e["status"])
    started = {}
    for rec in res["log"]:
        if rec.get("ev") == "start":
            started.setdefault((rec["bin"], rec["test"]), set()).add(rec["attempt"])
    if comb:
        f2, n2 = oracle_libtest_report(run, res, fin)
        fails += f2
        cnt["libtest_json_failed_reports"] = n2
    expected_streams = []
    for (b, name) in run["tests"]:
        atts = scen[b]["tests"][name]["attempts"]
        sts = fin.get((b, name))
        if sts is None:
            fails.append(f"{b} {name}: no TestFinished event")
            continue
        if {s["attempt"] for s in sts} != started.get((b, name), set()):
            fails.append(f"{b} {name}: attempts in the final event {[s['attempt'] for s in sts]} differ from the "
                         f"attempts the test process logged {sorted(started.get((b, name), []))}")
        for st in sts:
            k = st["attempt"]
            beh = atts[min(k, len(atts)) - 1]
            if beh.get("terminated"):
                recs = [rec for rec in res["log"] if rec.get("test") == name and rec.get("attempt") == k]
                got_sig = any(rec.get("ev") == "sig" and rec.get("who") == "test" for rec in recs)
                ended = any(rec.get("ev") == "end" and str(rec.get("how", "")).startswith("exit-on-signal")
                            for rec in recs)
                if got_sig and not ended:
                    fails.append(f"{b} {name} attempt {k}: the test received the termination signal and began "
                                 f"writing {len(spec_bytes(beh.get('term_stdout')))} + "
                                 f"{len(spec_bytes(beh.get('term_stderr')))} bytes but could not finish within the "
                                 f"grace period: its output was no longer being read")
                    continue
                t_written = [rec["t"] for rec in recs if rec.get("ev") == "written"]
                t_sig = [rec["t"] for rec in recs if rec.get("ev") == "sig" and rec.get("who") == "test"]
                if not ended or not t_written or (t_sig and t_sig[0] < t_written[0]):
                    # died before its handler was installed, or the signal arrived while it was still
                    # writing its first streams (overloaded machine): what it wrote is not known
                    cnt["inconclusive"] = cnt.get("inconclusive", 0) + 1
                    continue
            out, err = attempt_bytes(beh)
            o = st["output"]
            cnt["attempts"] = cnt.get("attempts", 0) + 1
            pairs = [("combined", attempt_combined(beh), o.get("combined"))] if comb else \
                    [("stdout", out, o.get("stdout")), ("stderr", err, o.get("stderr"))]
            for sname, want, got in pairs:
                cnt["streams"] = cnt.get("streams", 0) + 1
                if got is None:
                    fails.append(f"{b} {name} attempt {k}: {sname} not captured")
                    continue
                if (got["len"], int(got["xxh64"])) != (len(want), py_xxh64(want)):
                    ln = got["len"]
                    rel = "a prefix" if ln <= len(want) and int(got["xxh64"]) == py_xxh64(want[:ln]) else "different bytes"
                    fails.append(f"{b} {name} attempt {k}: captured {sname} has {ln} bytes, the test wrote "
                                 f"{len(want)} ({rel})")
                rt = fin.get(("retry", b, name, k))
                if rt is not None and rt["output"].get(sname) != got:
                    fails.append(f"{b} {name} attempt {k}: {sname} digest in the will-retry event differs from the final event")
                expected_streams.append(want)
            if o.get("errors"):
                fails.append(f"{b} {name} attempt {k}: read errors recorded")
    if fails:
        return fails, known, cnt

    # ---- JUnit
    path = os.path.join(res["junit_dir"], run["profile"], "junit.xml")
    try:
        root = ET.parse(path).getroot()
    except (ET.ParseError, OSError) as ex:
        return [f"JUnit report {path} is not well-formed XML / missing: {ex}"], known, cnt
    if root is not None:
        cnt["junit_parsed"] = 1
        cases = {}
        for suite in root.findall("testsuite"):
            for tc in suite.findall("testcase"):
                cases[(tc.get("classname"), tc.get("name"))] = tc
        for (b, name) in run["tests"]:
            atts = scen[b]["tests"][name]["attempts"]
            sts = fin[(b, name)]
            tc = cases.get((b, name))
            if tc is None:
                fails.append(f"JUnit: no testcase for {b} {name}")
                continue
            passed = sts[-1]["result"]["kind"] in ("pass", "leak")
            order = [sts[-1]] + sts[:-1] if passed else sts
            elems = [tc] + [e for e in tc if e.tag in ("flakyFailure", "flakyError", "rerunFailure", "rerunError")]
            if len(elems) != len(order):
                fails.append(f"JUnit: {b} {name} has {len(elems) - 1} rerun elements for {len(sts)} attempts")
                continue
            for el, st in zip(elems, order):
                k = st["attempt"]
                beh = atts[min(k, len(atts)) - 1]
                out, err = attempt_bytes(beh)
                tx = [textual(beh, OUT_KEYS), textual(beh, ERR_KEYS)]
                if comb:
                    out, err, tx = attempt_combined(beh), None, [tx[0] and tx[1], False]
                for tag, want, is_text in (("system-out", out, tx[0]), ("system-err", err, tx[1])):
                    if want is None or not is_text:
                        continue
                    node = el.find(tag)
                    got = (node.text or "") if node is not None else None
                    if got is None:
                        fails.append(f"JUnit: {b} {name} attempt {k} has no {tag}")
                        continue
                    cnt["junit_streams"] = cnt.get("junit_streams", 0) + 1
                    if b"\x1b" not in want and len(want) <= 1500:
                        cnt.setdefault("_norm", []).append(("junit", want, got))
                    doc = doc_junit(want)
                    if got == doc:
                        continue
                    if lenient(got) == lenient(doc) and has_ctrl(want):
                        known.append(KNOWN_TABS)
                        continue
                    fails.append(f"JUnit: {b} {name} attempt {k} {tag} is {got[:200]!r}, the test wrote "
                                 f"{want[:200]!r} -> documented {doc[:200]!r}")

    # ---- what nextest printed
    for mk in run.get("markers", []):
        # (a stream ending inside an escape sequence swallows the newline nextest appends after it, so the next
        # header is glued to its last line and the section parser below cannot be used; the other stream's bytes
        # must be shown all the same)
        if mk not in res["stderr"]:
            fails.append(f"display: the line {mk!r}, written to the other stream of the same attempt, is not shown at all")
    if not run.get("check_display"):
        return fails, known, cnt
    raw = run["flavour"] == "colour"
    blocks = display_blocks(res["stderr_bytes"] if raw else res["stderr"], raw)
    seen = set()
    for (b, name) in run["tests"]:
        atts = scen[b]["tests"][name]["attempts"]
        for st in fin[(b, name)]:
            k = st["attempt"]
            beh = atts[min(k, len(atts)) - 1]
            out, err = attempt_bytes(beh)
            pairs = [("OUTPUT", attempt_combined(beh))] if comb else [("STDOUT", out), ("STDERR", err)]
            for kind, want in pairs:
                got = blocks.get((b, name, k, kind), [])
                seen.add((b, name, k, kind))
                if not want:
                    if got:
                        fails.append(f"display: {b} {name} attempt {k} {kind} shown although the test wrote nothing")
                    continue
                if len(got) != 1:
                    fails.append(f"display: {b} {name} attempt {k} {kind} shown {len(got)} times")
                    continue
                cnt["display_streams"] = cnt.get("display_streams", 0) + 1
                if raw:
                    body = want[:-1] if want.endswith(b"\n") else want
                    if got[0] != body + b"\x1b[0m\n":
                        fails.append(f"display (colour): {b} {name} attempt {k} {kind} shows {got[0][:120]!r}..., "
                                     f"the test wrote {want[:120]!r}... ({len(got[0])} vs {len(want)} bytes)")
                    continue
                if b"\x1b" not in want and len(want) <= 1500 and "�" not in lossy(want):
                    cnt.setdefault("_norm", []).append(("display", want, got[0]))
                doc = doc_display(want)
                if got[0].replace("�", "") == doc.replace("�", ""):
                    continue
                if lenient(got[0]) == lenient(doc) and has_ctrl(want):
                    known.append(KNOWN_TABS)
                    continue
                fails.append(f"display: {b} {name} attempt {k} {kind} shows {got[0][:200]!r}, the test wrote "
                             f"{want[:200]!r} -> documented {doc[:200]!r}")
    extra = set(blocks) - seen
    if extra:
        fails.append(f"display: output blocks for attempts that do not exist: {sorted(extra)[:4]}")
    return fails, known, cnt


# ------------------------------------------------------------------------------------------------

def run_e2e(chk, rig, runs, par=4):
    results = {}

    def one(run):
        res = rig.run(run["scenario"], run["config"], args=run["args"], env_extra=run["env"], timeout=300,
                      signals=kill_signals(run), keep=bool(run.get("kill")))
        return run["idx"], res

    with concurrent.futures.ThreadPoolExecutor(max_workers=par) as ex:
        for idx, res in ex.map(one, runs):
            results[idx] = res
    return results


def check_normalise(chk, pairs, cap=400):
    """corr:normalise -- Model/CaptureNorm.v (what strip-ansi-escapes / quick-junit do to ESC-free text)
    against what nextest stored in the JUnit report and printed without colour"""
    if chk.violations or not pairs:
        return
    uniq, seen = [], set()
    for kind, want, got in pairs:
        key = (kind, want)
        if key not in seen:
            seen.add(key)
            uniq.append((kind, want, got))
    uniq = uniq[:cap]
    exprs = [f"{'junit_impl' if kind == 'junit' else 'display_impl'} "
             f"{vlib.coq_list([str(ord(ch)) for ch in lossy(want)])}" for kind, want, got in uniq]
    model = vlib.coq_eval("c16n", ["Base.Str", "Model.CaptureNorm"], exprs)
    for (kind, want, got), m in zip(uniq, model):
        chk.count("normalise_cases")
        if [ord(ch) for ch in got] != m:
            chk.violation("broken-obligation", "corr:normalise",
                          dict(kind=kind, written=want.hex(), nextest=got, model=vlib.decode_str(m),
                               note="Model/CaptureNorm.v and nextest disagree on ESC-free text"), no_input=True)
            return


def run(tier, seed):
    chk = vlib.Check(PROP, tier, seed)
    thorough = tier == "thorough"
    gate = vlib.coq_gate(PROP)
    vlib.gate_or_violation(chk, gate)
    # glue code (DESIGN 11.7, third round): whose captured output the <testcase> and its rerun elements carry, read from
    # the TestFinished arm of MetadataJunit::write_event
    gen_tie.gate(chk, ['junit_test_case'], gate, family="glue")
    # fourth round: which streams UnitOutputReporter::write_child_output writes as sections (and under which headers),
    # regenerated from the source and proved equal to Model/DisplaySections.v (each stream on its own account)
    gen_tie.gate(chk, ['display_sections'], gate, family="glue")
    # fifth round: the libtest-json report's stored output (strip_human_stdout_or_combined): only the exact status line
    # `test <name> ... FAILED` of this test ends the stored text; everything between header and that line is stored
    gen_tie.gate(chk, ['libtest_closing_line', 'libtest_report'], gate, family="glue")
    checker = "make -C coq Properties/C16.vo && coqc gen/assump_C16.v (Print Assumptions)"
    binary, err = vlib.build_harness()
    if binary is None:
        chk.violation("broken-obligation", "harness-build", dict(error=err), no_input=True)
        return chk.finish(gate, checker, [])
    r = vlib.rng_for(seed, PROP)
    vlib.log(f"[C16] gate+harness {time.time() - chk.t0:.1f}s")
    check_fused(chk, binary, r, thorough)
    vlib.log(f"[C16] fused done {time.time() - chk.t0:.1f}s")
    check_accumulator(chk, binary, r, thorough)
    vlib.log(f"[C16] accumulator done {time.time() - chk.t0:.1f}s")

    try:
        rig = e2e.Rig()
    except RuntimeError as ex:
        chk.violation("broken-obligation", "e2e-build", dict(error=str(ex)[-3000:]), no_input=True)
        return chk.finish(gate, checker, [])
    runs = fixed_runs(0)
    for run_ in runs:
        if run_["name"] == "unterminated-escape":
            run_["markers"] = ["ERR-MARKER-OSC line", "ERR-MARKER-CSI line", "ERR-MARKER-ESC line", "OUT-MARKER-REV line"]
    runs.append(leak_run(len(runs)))
    runs.append(terminate_run(len(runs)))
    runs.append(script_run(len(runs)))
    runs.append(info_run(len(runs), "mixed"))
    runs.append(info_run(len(runs), "combined"))
    runs.extend(kill_runs(len(runs), r, thorough))
    plan = (["mixed"] * 8 + ["text"] * 8 + ["colour"] * 3 + ["combined"] * 3 + ["big"] * 2) if not thorough else \
           (["mixed"] * 100 + ["text"] * 120 + ["colour"] * 50 + ["combined"] * 50 + ["big"] * 24)
    for fl in plan:
        runs.append(gen_run(r, len(runs), fl, thorough))
    vlib.log(f"[C16] rig ready {time.time() - chk.t0:.1f}s")
    results = run_e2e(chk, rig, runs, par=4)
    vlib.log(f"[C16] e2e runs done {time.time() - chk.t0:.1f}s")
    distinct = set()
    norm_pairs = []
    for run_ in runs:
        res = results[run_["idx"]]
        chk.count("e2e_runs")
        chk.count("e2e_" + run_["flavour"])
        if run_.get("leak"):
            fails, known, cnt = oracle_leak(run_, res), [], {}
        elif run_.get("kill"):
            fails, cnt = oracle_kill(run_, res)
            known = []
            rig.cleanup(res)
        else:
            fails, known, cnt = oracle_run(run_, res)
            if run_.get("script"):
                fails = fails + oracle_script(run_, res)
        norm_pairs.extend(cnt.pop("_norm", []))
        for k, v in cnt.items():
            chk.count("e2e_" + k, v)
        for k in known:
            chk.known_finding(k)
        if fails:
            chk.violation("counterexample", "e2e:capture",
                          dict(run={k: run_[k] for k in ("flavour", "scenario", "config", "args", "env", "profile", "tests",
                                                        "retries", "check_display", "idx")},
                               leak=bool(run_.get("leak")), script=bool(run_.get("script")), kill=bool(run_.get("kill")),
                               stop=bool(run_.get("stop")), run_name=run_.get("name"), clauses=fails[:6], nextest_stderr=res["stderr"][-1500:]))
            break
        for b, t in run_["scenario"]["bins"].items():
            for name, spec in t["tests"].items():
                for beh in spec["attempts"]:
                    o, e = attempt_bytes(beh)
                    if len(o) + len(e) > 0:
                        distinct.add((py_xxh64(o[:4096]), len(o), py_xxh64(e[:4096]), len(e)))
        if not run_.get("leak"):
            rig.cleanup(res)
    vlib.log(f"[C16] e2e oracles done {time.time() - chk.t0:.1f}s")
    check_normalise(chk, norm_pairs)
    vlib.log(f"[C16] normalise done {time.time() - chk.t0:.1f}s")
    chk.sample(dict(e2e_run={k: runs[-1][k] for k in ("flavour", "args", "retries")},
                    tests=len(runs[-1]["tests"]), scenario=json.dumps(runs[-1]["scenario"])[:1500]))
    chk.assumptions = [
        "kernel pipe semantics (FIFO, EOF when every write end is closed, reads of 1..min(requested, available) bytes) "
        "and tokio's readers are outside the model; they are reached only by corr:accumulator (real pipes) and the "
        "end-to-end runs",
        "the wait loops are represented by their fill_buf branch; that no loop stops polling before EOF other than "
        "at the leak verdict is observed end to end (digests), not derived from the Rust text",
        "lossy UTF-8 (std), ANSI stripping (strip-ansi-escapes/vte) and XML escaping (quick-junit/quick-xml) are not "
        "modelled; their documented effect is re-implemented in Python and compared end to end",
        "the TestFinished statuses of the event tap (hook H1) are the ExecuteStatus values the reporters receive",
    ]
    ev = sum(v for k, v in chk.counts.items() if k in ("fused_cases", "accumulator_cases", "e2e_attempts"))
    return chk.finish(
        gate, checker,
        ["Coq 8.16.1 kernel + vm_compute", "hand-written model Model/Capture.v (tied by corr:fused-reader and "
         "corr:accumulator through hook H7, and by end-to-end digests through hook H1)",
         "props/C16.py (generators, normalisers, oracles), harness/src/reader.rs, lib/e2e.py, e2e/puppet.py",
         "Python's xml.etree (expat) as the strict XML parser"],
        dict(evaluations=ev, distinct_nontrivial=len(distinct),
             rule="corr cases: reader scripts / pipe operation sequences (exhaustive over all chunkings of <= 6 bytes, "
                  "seeded up to 64 KiB); e2e: one evaluation per test attempt; distinct_nontrivial counts e2e attempts "
                  "that wrote at least one byte, distinct by (length, digest of the first 4 KiB) of both streams",
             traces_validated_against_impl=chk.counts.get("accumulator_cases", 0) + chk.counts.get("fused_cases", 0)
             + chk.counts.get("e2e_runs", 0),
             exhaustive=False))


def replay(path, seed):
    d = json.load(open(path))
    print(json.dumps(d, indent=1)[:4000])
    if d.get("name") in ("corr:fused-reader", "corr:accumulator") and "input" in d:
        binary, err = vlib.build_harness()
        res = vlib.run_impl(binary, "reader", [d["input"]])[0]
        print("impl now:", json.dumps(res)[:2000])
        if d["name"] == "corr:fused-reader":
            want = script_expected(d["input"]["script"])
            ok = res["acc"]["len"] <= len(want) and int(res["acc"]["xxh64"]) == py_xxh64(want[:res["acc"]["len"]])
            if res["done"] and not any(t[2] for t in res["trace"]):
                ok = ok and res["acc"]["len"] == len(want)
            print("oracle:", "accepts" if ok else "rejects")
            return 0 if ok else 1
        (wo, we), wc, closed = pipe_expected(d["input"])
        fr = res["frozen"]
        bad = False
        for nm, want in (("stdout", wo), ("stderr", we), ("combined", wc)):
            g = fr.get(nm)
            if g is not None and (g["len"] > len(want) or int(g["xxh64"]) != py_xxh64(want[:g["len"]])):
                bad = True
        print("oracle:", "rejects" if bad else "accepts")
        return 1 if bad else 0
    if d.get("name") == "e2e:capture" and "run" in d:
        rig = e2e.Rig()
        run_ = d["run"]
        run_["tests"] = [tuple(t) for t in run_["tests"]]
        run_["stop"], run_["kill"] = bool(d.get("stop")), bool(d.get("kill"))
        res = rig.run(run_["scenario"], run_["config"], args=run_["args"], env_extra=run_["env"], timeout=300,
                      signals=kill_signals(run_), keep=run_["kill"])
        if run_["kill"]:
            fails = oracle_kill(run_, res)[0]
            print("oracle:", fails or "accepts")
            return 1 if fails else 0
        fails = oracle_leak(run_, res) if d.get("leak") else oracle_run(run_, res)[0]
        if d.get("script"):
            fails = fails + oracle_script(run_, res)
        print("oracle:", fails or "accepts")
        return 1 if fails else 0
    return 2   # not a kind of record this function knows how to replay (the driver then re-runs the check)
