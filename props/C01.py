"""C01 — exit status 0 iff every selected test ultimately passed; codes 100 / 105 / 4.
Theorems: coq/Properties/C01.v.  Correspondence: corr:run-stats (on_test_finished /
on_setup_script_finished through hook H3), corr:summarize-final (exhaustive over the counters the
verdict reads, entries in {0,1,2}), corr:exit-arm (the NextestExitCode constants through the harness,
the final match of App::exec_run read from the source text), corr:dispatcher-step on well-formed
histories.  Oracle: the exit status computed from the ground truth of the history (which tests'
last attempts passed, which scripts failed) must equal the exit status the implementation's own
final statistics map to."""
import itertools, json, os, re
import vlib, gen_tie
from props import dispatcher_common as dc
from props import C10 as c10

PROP = "C01"
GEN_TARGETS = ["summarize_final", "failed_count", "failed_setup_script_count", "on_test_finished",
               "on_setup_script_finished", "is_success", "exec_run_exit", "command_exit",
               # fifth round: the only early `return Ok(0)` of exec_run is taken iff --no-run (an empty list runs)
               "exec_run_early_return"]
# counters read by summarize_final (indices into the 17-vector)
VERDICT_FIELDS = [0, 1, 2, 3, 5, 6, 7, 11, 13, 15]


# ----------------------------------------------------------------------------- exec_run's final match, from the source text

def _block_after(src, start):
    i = src.index("{", start)
    depth, j = 0, i
    while True:
        if src[j] == "{":
            depth += 1
        elif src[j] == "}":
            depth -= 1
            if depth == 0:
                return src[i + 1:j], j
        j += 1


def _arms(block):
    """split a match body into (pattern, body) at depth 0"""
    arms, depth, cur, i = [], 0, "", 0
    while i < len(block):
        ch = block[i]
        if ch in "{([":
            depth += 1
        elif ch in "})]":
            depth -= 1
        cur += ch
        if depth == 0 and (ch == "," or (ch == "}" and "=>" in cur)):
            if "=>" in cur:
                pat, body = cur.split("=>", 1)
                arms.append((pat.strip(" ,\n"), body.strip(" ,\n")))
            cur = ""
        i += 1
    if "=>" in cur:
        pat, body = cur.split("=>", 1)
        arms.append((pat.strip(" ,\n"), body.strip(" ,\n")))
    return arms


def exit_arm_from_source(repo):
    """{(final kind, policy) -> ExpectedError variant or 0} as written in exec_run, or None when
    the text is not in a recognisable shape (then this tie is left to the end-to-end rig)."""
    try:
        src = open(os.path.join(repo, "cargo-nextest/src/dispatch.rs")).read()
        err = open(os.path.join(repo, "cargo-nextest/src/errors.rs")).read()
        block, _ = _block_after(src, src.index("match run_stats.summarize_final()"))
        table = {}

        def leaf(body):
            if "ExpectedError::NoTestsRun" in body:
                return "NoTestsRun"
            if "setup_script_failed()" in body:
                return "SetupScriptFailed"
            if "test_run_failed()" in body:
                return "TestRunFailed"
            if re.search(r"Ok\(0\)", body) and "Err(" not in body:
                return 0
            raise ValueError("unrecognised arm body " + body[:60])

        for pat, body in _arms(block):
            kinds = []
            for k, frag in (("Success", "FinalRunStats::Success"), ("NoTestsRun", "FinalRunStats::NoTestsRun"),
                            ("CancelledScript", "Cancelled(RunStatsFailureKind::SetupScript"),
                            ("FailedScript", "Failed(RunStatsFailureKind::SetupScript"),
                            ("CancelledTest", "Cancelled(RunStatsFailureKind::Test"),
                            ("FailedTest", "Failed(RunStatsFailureKind::Test")):
                if frag in pat:
                    kinds.append(k)
            if not kinds:
                raise ValueError("unrecognised pattern " + pat[:60])
            if kinds == ["NoTestsRun"]:
                inner, _ = _block_after(body, body.index("match runner_opts.no_tests"))
                for ipat, ibody in _arms(inner):
                    pol = {"Some(NoTestsBehavior::Pass)": 1, "Some(NoTestsBehavior::Warn)": 2,
                           "Some(NoTestsBehavior::Fail)": 3, "None": 0}[ipat]
                    table[("NoTestsRun", pol)] = leaf(ibody)
            else:
                for k in kinds:
                    for pol in range(4):
                        table[(k, pol)] = leaf(body)
        # constructors and process_exit_code
        if not re.search(r"fn setup_script_failed\(\) -> Self \{\s*Self::SetupScriptFailed\s*\}", err) or \
                not re.search(r"fn test_run_failed\(\) -> Self \{\s*Self::TestRunFailed\s*\}", err):
            raise ValueError("constructors not recognised")
        consts = {}
        for var, pat in (("SetupScriptFailed", r"Self::SetupScriptFailed => NextestExitCode::(\w+)"),
                         ("TestRunFailed", r"Self::TestRunFailed => NextestExitCode::(\w+)"),
                         ("NoTestsRun", r"Self::NoTestsRun \{ \.\. \} => NextestExitCode::(\w+)")):
            m = re.search(pat, err)
            if not m:
                raise ValueError("process_exit_code arm not recognised for " + var)
            consts[var] = m.group(1)
        if len(table) != 24:
            raise ValueError(f"{len(table)} of 24 (final kind, policy) pairs covered")
        return table, consts
    except (ValueError, KeyError, IndexError, OSError) as e:
        return None, str(e)


FINAL_KIND = {0: "Success", 1: "NoTestsRun", 2: "CancelledScript", 3: "CancelledTest", 4: "FailedScript",
              5: "FailedTest"}


def stats_vec(r, entries):
    v = [r.randint(0, 2) for _ in range(17)]
    for i, x in zip(VERDICT_FIELDS, entries):
        v[i] = x
    return v


def corr_pure(chk, binary, r, thorough):
    # ---- NextestExitCode constants
    consts = vlib.run_impl(binary, "dispatcher", [dict(op="exitcodes")])[0]
    model = dc.coq_eval("c01k", ["Z.to_N EXIT_NO_TESTS_RUN", "Z.to_N EXIT_TEST_RUN_FAILED",
                           "Z.to_N EXIT_SETUP_SCRIPT_FAILED", "Z.to_N EXIT_OK"])
    impl_k = [consts["NO_TESTS_RUN"], consts["TEST_RUN_FAILED"], consts["SETUP_SCRIPT_FAILED"], 0]
    chk.count("exit_constant_cases", 4)
    if impl_k != model or impl_k != [4, 100, 105, 0]:
        chk.violation("counterexample", "corr:exit-arm",
                      dict(input="NextestExitCode::{NO_TESTS_RUN,TEST_RUN_FAILED,SETUP_SCRIPT_FAILED}",
                           impl=impl_k, model=model, documented=[4, 100, 105, 0],
                           clause="100 for test failure or cancellation, 105 for a setup-script failure, 4 when "
                                  "no test was selected"))
    # ---- the final match of exec_run, from the source text (soft: unrecognised shape => e2e only)
    table, info = exit_arm_from_source(vlib.REPO)
    if table is None:
        chk.count("exit_arm_source_unrecognised")
        chk.assumptions.append("exec_run's final match was not in a recognisable textual shape (" + str(info)
                               + "); the FinalRunStats -> exit code arm is tied by the end-to-end rig only")
    else:
        code_of = {0: 0, "NoTestsRun": consts.get(info["NoTestsRun"]),
                   "SetupScriptFailed": consts.get(info["SetupScriptFailed"]),
                   "TestRunFailed": consts.get(info["TestRunFailed"])}
        rep = {"Success": [0], "NoTestsRun": [1], "CancelledScript": [2], "CancelledTest": [3, 1, 1],
               "FailedScript": [4], "FailedTest": [5, 1, 0]}
        for (kind, pol), v in sorted(table.items(), key=str):
            chk.count("exit_arm_source_cases")
            got = code_of[v]
            if got != dc.exit_arm(rep[kind], pol):
                chk.violation("counterexample", "corr:exit-arm",
                              dict(input=dict(final=kind, no_tests_policy=pol), impl=got,
                                   model=dc.exit_arm(rep[kind], pol),
                                   clause="exit status for this verdict as written in App::exec_run / "
                                          "ExpectedError::process_exit_code"))
                break

    # ---- summarize_final + exit code, exhaustively over the counters the verdict reads
    if thorough:
        combos = list(itertools.product(range(3), repeat=len(VERDICT_FIELDS)))
    else:
        combos = list(itertools.product(range(2), repeat=len(VERDICT_FIELDS)))
        combos += [tuple(r.choice([0, 0, 0, 1, 2]) for _ in VERDICT_FIELDS) for _ in range(3000)]
    vecs = [stats_vec(r, c) for c in combos]
    impl = vlib.run_impl(binary, "dispatcher", [dict(op="final", stats=v) for v in vecs], shards=16)
    model = dc.coq_eval("c01f", ["obs_final " + vlib.coq_list([str(x) for x in v]) for v in vecs])
    for v, i, m in zip(vecs, impl, model):
        chk.count("summarize_final_cases")
        chk.count(f"final={FINAL_KIND[i[0]]}")
        sep = m.index(99)
        m_final, m_codes = m[:sep], m[sep + 1:]
        # independent reading of the documented priority: script failure > script cancel > test
        # failure > cancelled > no tests > success
        if v[5] + v[6] + v[7] > 0:
            want = 4
        elif v[2] > v[3]:
            want = 2
        elif v[11] + v[13] + v[15] > 0:
            want = 5
        elif v[0] > v[1]:
            want = 3
        elif v[1] == 0:
            want = 1
        else:
            want = 0
        if i != m_final or i[0] != want or m_codes != [dc.exit_arm(i, p) for p in range(4)]:
            chk.violation("counterexample" if i[0] != want else "broken-obligation", "corr:summarize-final",
                          dict(input=v, impl=i, model=m_final, model_exit_codes=m_codes, documented_kind=want,
                               clause="script failure > script cancel > test failure > cancelled > no tests > success"),
                          no_input=(i[0] == want))
            break

    # ---- on_test_finished / on_setup_script_finished / describe (hook H3)
    results = [[0, 0, 0], [1, 0, 0], [2, 0, 0], [2, 10, 0], [2, 0, 1], [2, 12, 1], [3, 0, 0], [4, 0, 0]]
    cases = []
    for res in results:
        for slow in (0, 1):
            for n in (1, 2, 3):
                past = [dc.gen_res(r, True) + [r.randint(0, 1), k + 1, n] for k in range(n - 1)]
                cases.append(dict(op="otf", stats=[r.randint(0, 3) for _ in range(17)],
                                  attempts=past + [res + [slow, n, n]]))
    for _ in range(400 if thorough else 80):
        n = r.randint(1, 4)
        cases.append(dict(op="otf", stats=[r.randint(0, 5) for _ in range(17)],
                          attempts=[dc.gen_res(r) + [r.randint(0, 1), k + 1, n] for k in range(n)]))
    impl = vlib.run_impl(binary, "dispatcher", cases)
    exprs = []
    for c in cases:
        past = vlib.coq_list([dc.coq_att(a) for a in c["attempts"][:-1]])
        st = f"(mk_statuses {past} {dc.coq_att(c['attempts'][-1])})"
        sv = vlib.coq_list([str(x) for x in c["stats"]])
        exprs.append(f"(let s := on_test_finished (stats_of_list {sv}) {st} in "
                     f"enc_stats s ++ [describe {st}; failed_count s])")
    model = dc.coq_eval("c01t", exprs)
    for c, i, m in zip(cases, impl, model):
        chk.count("on_test_finished_cases")
        got = i["stats"] + [i["describe"], i["failed_count"]]
        last = c["attempts"][-1]
        # oracle: exactly one of passed / failed / exec_failed / timed_out moves, as the last attempt says
        delta = [a - b for a, b in zip(i["stats"], c["stats"])]
        want_field = {0: 8, 1: 8, 2: 11, 3: 15, 4: 13}[last[0]]
        ok = delta[1] == 1 and delta[want_field] == 1 and \
            sum(delta[k] for k in (8, 11, 13, 15)) == 1 and \
            delta[10] == (1 if last[0] <= 1 and len(c["attempts"]) > 1 else 0) and \
            delta[14] == (1 if last[0] == 1 else 0)
        if got != m or not ok:
            chk.violation("counterexample" if not ok else "broken-obligation", "corr:run-stats",
                          dict(input=c, impl=i, model=m,
                               clause="the last attempt decides which counter a finished test goes to; flaky iff "
                                      "it passed after more than one attempt; leaky passes count as passes"),
                          no_input=ok)
            break
    cases = [dict(op="osf", stats=[r.randint(0, 3) for _ in range(17)], result=res) for res in results]
    impl = vlib.run_impl(binary, "dispatcher", cases)
    model = dc.coq_eval("c01s", [
        f"(let s := on_script_finished (stats_of_list {vlib.coq_list([str(x) for x in c['stats']])}) "
        f"{dc.coq_res(c['result'])} in enc_stats s ++ [failed_setup_script_count s])" for c in cases])
    for c, i, m in zip(cases, impl, model):
        chk.count("on_script_finished_cases")
        if i["stats"] + [i["failed_scripts"]] != m:
            chk.violation("broken-obligation", "corr:run-stats", dict(input=c, impl=i, model=m), no_input=True)
            break


def oracle_c01(case, steps, finals):
    """exit status from ground truth == exit status the implementation's final statistics map to
    (finals: the real summarize_final of the implementation's last run_stats)"""
    for p in range(4):
        want = dc.ground_truth_exit(case, steps, p)
        got = dc.exit_arm(finals, p)
        if want != got:
            return (f"no-tests policy {['default', 'pass', 'warn', 'fail'][p]}: exit status {got} from the "
                    f"implementation's statistics (verdict {FINAL_KIND[finals[0]]}), {want} from what the tests did")
    return None


def last_stats(case, steps):
    live = [s for s in steps if not s["panic"]]
    if live:
        return live[-1]["state"]["stats"]
    return [case["initial"]] + [0] * 16


def run(tier, seed):
    chk = vlib.Check(PROP, tier, seed)
    gate = vlib.coq_gate(PROP, extra_targets=dc.EXTRA_TARGETS)
    vlib.gate_or_violation(chk, gate)
    if tier == "thorough":
        # once per thorough pass over the properties: the independent checker over the whole development
        vlib.coqchk_all(chk)
    binary, err = vlib.build_harness()
    if binary is None:
        chk.violation("broken-obligation", "harness-build", dict(error=err), no_input=True)
        return chk.finish(gate, "make -C coq Properties/C01.vo", [])
    # DESIGN 11.7: the verdict / counter functions regenerated from the source text and proved equal to the
    # model's (reported at the end, unless the stages below find a concrete failing input)
    gen_tie.gate(chk, GEN_TARGETS, gate)
    # glue code (DESIGN 11.7, third round): TestList::run_count (= initial_run_count) counts every mismatch reason
    gen_tie.gate(chk, ['run_count'], gate, family="glue")
    r = vlib.rng_for(seed, PROP)
    thorough = tier == "thorough"
    chk.assumptions = []
    corr_pure(chk, binary, r, thorough)

    # ---- corr:dispatcher-step, mostly well-formed histories, + exit-status oracle
    cases = c10.witnesses() + dc.load_corpus(PROP)
    n = 5000 if thorough else 1200
    while len(cases) < n * 0.75:
        cases.append(dc.gen_wf(r, maxlen=80, cancel_bias=0.45))
    while len(cases) < n:
        cases.append(dc.gen_near(r))
    impl, mismatch = c10.run_step_correspondence(chk, binary, cases, r, None, tier, "c01s")
    wfm = dc.coq_eval("c01w", [dc.coq_wf_expr(c) for c in cases])
    finals = vlib.run_impl(binary, "dispatcher",
                           [dict(op="final", stats=last_stats(c, i["steps"])) for c, i in zip(cases, impl)],
                           shards=16)
    oracle_failed = False
    distinct = set()
    for c, i, w, f in zip(cases, impl, wfm, finals):
        steps = i["steps"]
        chk.count("dispatcher_step_cases")
        chk.count("steps", len(steps))
        pw = dc.py_wf(c, steps)
        coq_wf = bool(w[0]) and c["initial"] == len(c["cfg"]["sel"])
        chk.count(f"kind={c['kind']},wf={pw is None}")
        panicked = bool(steps) and steps[-1]["panic"]
        if (pw is None) != coq_wf and not panicked:
            chk.violation("broken-obligation", "corr:wf-history",
                          dict(input=c, python_protocol_check=pw, coq_wf_history=coq_wf,
                               note="protocol checker on the implementation's handshake answers and wf_history on "
                                    "the model's answers disagree"), no_input=True)
            break
        if pw is not None or panicked:
            continue
        # well-formed, not panicked: the property applies
        chk.count(f"wf_final={FINAL_KIND[f[0]]}")
        chk.count(f"wf_exit_default={dc.exit_arm(f, 0)}")
        chk.count(f"wf_selected={min(len(c['cfg']['sel']), 6)}")
        if len(c["cfg"]["sel"]) >= 2 and len(c["events"]) >= 6:
            distinct.add(json.dumps([c["events"], c["max_fail"], c["cfg"]["sel"]]))
        why = oracle_c01(c, steps, f)
        model_codes, spec_codes = w[1:5], w[5:9]
        if why and not oracle_failed:
            oracle_failed = True

            def orc(cc, ss):
                if dc.py_wf(cc, ss) is not None or (ss and ss[-1]["panic"]):
                    return None
                ff = vlib.run_impl(binary, "dispatcher", [dict(op="final", stats=last_stats(cc, ss))])[0]
                return oracle_c01(cc, ss, ff)
            small = c10.shrink(binary, c, orc)
            ssteps = vlib.run_impl(binary, "dispatcher", [small])[0]["steps"]
            chk.violation("counterexample", "oracle:c01",
                          dict(input=small, original_input=c, clause=orc(small, ssteps) or why, impl=ssteps,
                               impl_final=f))
        elif not why and (model_codes != spec_codes or model_codes != [dc.exit_arm(f, p) for p in range(4)]):
            chk.violation("broken-obligation", "corr:run-exit",
                          dict(input=c, model_exit=model_codes, spec_exit=spec_codes,
                               impl_exit=[dc.exit_arm(f, p) for p in range(4)]), no_input=True)
            break
    if mismatch not in (None, "reported") and not oracle_failed:
        c, steps, m, d = mismatch
        chk.violation("broken-obligation", "corr:dispatcher-step",
                      dict(correspondence="corr:dispatcher-step", input=c, step=d[0], impl_step=d[1],
                           model_step=d[2], impl=steps[:d[0] + 1],
                           note="implementation and model disagree on this history; the exit-status oracle accepted "
                                "every well-formed history explored (see ./check C10 for the cancellation oracle)"),
                      no_input=True)

    chk.sample(dict(history=cases[3]["events"][:30], selected=cases[3]["cfg"]["sel"], max_fail=cases[3]["max_fail"],
                    impl_final=finals[3], exit_default=dc.exit_arm(finals[3], 0)))
    chk.sample(dict(history=cases[4]["events"][:30], selected=cases[4]["cfg"]["sel"], impl_final=finals[4]))
    chk.assumptions += [
        "the process exit status itself is not observed here: the FinalRunStats -> exit code arm of App::exec_run is "
        "compared through its source text and the NextestExitCode constants; real processes, real schedules and the "
        "real exit status are the end-to-end rig's (corr:dispatcher-trace, e2e oracle)",
        "wf_history (the executor protocol) is an assumption about runner/executor.rs validated on real histories by "
        "the event tap (hook H1), not derived from the Rust text",
        "initial_run_count = number of Matches tests (TestList::run_count) is C04's",
        "reporter failures (exit 110) and TestRunnerExecuteErrors are outside the statement",
    ]
    # end-to-end stage: real cargo-nextest runs over the scripted puppet workspace (real schedules, real
    # process exit status), judged by this property's oracle (lib/e2e_general.py)
    try:
        import e2e_general
        e2e_general.stage(chk, PROP, tier, seed)
        # corr:dispatcher-trace (hook H1b): the history the real dispatcher received on real schedules is
        # checked against wf_history and replayed through fold dstep (lib/trace_tie.py)
        import trace_tie
        trace_tie.stage_trace(chk, tier, seed)
    except RuntimeError as ex:
        chk.violation("broken-obligation", "e2e-build", dict(error=str(ex)[-3000:]), no_input=True)
    return chk.finish(
        gate, "make -C coq Properties/C01.vo && coqc gen/assump_C01.v (Print Assumptions)",
        ["Coq 8.16.1 kernel + vm_compute",
         "hand-written model Model/{Result,Dispatcher,Unit}.v tied by corr:run-stats, corr:summarize-final, "
         "corr:exit-arm, corr:dispatcher-step (hooks H2, H3)",
         "Python generators/canonicalisers/oracles in props/dispatcher_common.py, props/C01.py",
         "harness/src/dispatcher.rs"],
        dict(evaluations=sum(v for k, v in chk.counts.items() if k.endswith("_cases")),
             distinct_nontrivial=len(distinct),
             rule="a dispatcher case is one event history (<= 8 tests, <= 80 events) stepped through handle_event "
                  "and fold dstep, every step compared; the exit-status oracle applies to the well-formed ones; "
                  "non-trivial = well-formed, at least 2 selected tests and 6 events; distinct by (history, "
                  "max-fail, selection). summarize_final cases are counter vectors over the 10 counters it reads",
             traces_validated_against_impl=chk.counts.get("steps", 0)))


def replay(path, seed):
    d = json.load(open(path))
    print(json.dumps(d, indent=1)[:4000])
    binary, err = vlib.build_harness()
    inp = d.get("input")
    if isinstance(inp, dict) and inp.get("op") == "seq":
        steps = vlib.run_impl(binary, "dispatcher", [inp])[0]["steps"]
        f = vlib.run_impl(binary, "dispatcher", [dict(op="final", stats=last_stats(inp, steps))])[0]
        pw = dc.py_wf(inp, steps)
        why = oracle_c01(inp, steps, f) if pw is None else None
        model = dc.coq_eval("c01r", [dc.coq_seq_expr(inp)])[0]
        diff = dc.diff_seq(steps, model)
        print("well-formed:", pw or "yes", "| oracle:", why or "accepts", "| model vs implementation:",
              "agree" if diff is None else f"differ at step {diff[0]}")
        return 1 if (why or diff) else 0
    if isinstance(inp, list) and len(inp) == 17:
        print("summarize_final:", vlib.run_impl(binary, "dispatcher", [dict(op="final", stats=inp)])[0])
    return 2   # not a kind of record this function knows how to replay (the driver then re-runs the check)
