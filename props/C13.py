"""C13 — partition shards: theorems (Properties/C13.v) + correspondence of the partition model with
nextest (xxh64 crate, public Partitioner API, TestList::process_output through hook H4) + an
independent oracle on the implementation's own answers."""
import json, os, re
import vlib, gen_tie
from vlib import coq_str, coq_list, decode_str

PROP = "C13"
IMPORTS = ["Base.Str", "Model.Xxh64", "Model.Filter", "Model.Partition", "Proofs.Partition",
           "Proofs.PartitionWhole"]
PRELUDE = """
Definition any_infix (l : list str) (nm : str) : bool := existsb (fun s => is_infix s nm) l.
(* ignored stage; then the name stage (--skip overrides; positional substring patterns, if any, must
   match) before the expression stage (some -E test(~s) must match, if any is given) *)
Definition pre_of (ri : run_ignored) (skips pats exprs : list str) : str -> bool -> option mismatch :=
  fun nm ign => match filter_ignored ri ign with
                | Some r => Some r
                | None =>
                    if any_infix skips nm then Some MString
                    else if match pats with [] => false | _ => negb (any_infix pats nm) end then Some MString
                    else if match exprs with [] => false | _ => negb (any_infix exprs nm) end then Some MExpression
                    else None
                end.
Definition obs (l : list tcase) : list (list N * (N * N))%type :=
  map (fun e : tcase => (fst e, ((if fst (snd e) then 1 else 0), fmatch_code (snd (snd e))))) l.
Fixpoint seq_run (pb : pbuilder) (cur : N) (names : list str) : list N :=
  match names with
  | [] => []
  | nm :: r => let '(b, c) := part_match pb cur nm in (if b then 1 else 0) :: seq_run pb c r
  end.
Definition enc (l : list (list N * (N * N))%type) : list (list N) :=
  map (fun e : (list N * (N * N))%type => fst (snd e) :: snd (snd e) :: fst e) l.
Definition parse_obs (s : str) : list N :=
  match parse_partition s with
  | None => [0]
  | Some pb => [match pb_kind pb with PCount => 1 | PHash => 2 end; pb_shard pb; pb_total pb]
  end.
"""

# ---- independent oracle pieces (Python, not the Coq model)
M64 = (1 << 64) - 1
P1, P2, P3, P4, P5 = (11400714785074694791, 14029467366897019727, 1609587929392839161,
                      9650029242287828579, 2870177450012600261)


def _rotl(x, r):
    return ((x << r) | (x >> (64 - r))) & M64


def _round(acc, inp):
    return (_rotl((acc + inp * P2) & M64, 31) * P1) & M64


def py_xxh64(data, seed=0):
    n, i = len(data), 0
    if n >= 32:
        v = [(seed + P1 + P2) & M64, (seed + P2) & M64, seed & M64, (seed - P1) & M64]
        while i + 32 <= n:
            for k in range(4):
                v[k] = _round(v[k], int.from_bytes(data[i + 8 * k:i + 8 * k + 8], "little"))
            i += 32
        h = (_rotl(v[0], 1) + _rotl(v[1], 7) + _rotl(v[2], 12) + _rotl(v[3], 18)) & M64
        for k in range(4):
            h = (((h ^ _round(0, v[k])) * P1) + P4) & M64
    else:
        h = (seed + P5) & M64
    h = (h + n) & M64
    while i + 8 <= n:
        h = ((_rotl(h ^ _round(0, int.from_bytes(data[i:i + 8], "little")), 27) * P1) + P4) & M64
        i += 8
    if i + 4 <= n:
        h = ((_rotl(h ^ ((int.from_bytes(data[i:i + 4], "little") * P1) & M64), 23) * P2) + P3) & M64
        i += 4
    while i < n:
        h = (_rotl(h ^ ((data[i] * P5) & M64), 11) * P1) & M64
        i += 1
    h ^= h >> 33
    h = (h * P2) & M64
    h ^= h >> 29
    h = (h * P3) & M64
    h ^= h >> 32
    return h


ALPHA = ["a", "b", "_", "B", "0", ":", "é", "𝄞", " "]


def gen_name(r):
    if r.random() < 0.35:
        # module paths: nested modules, a test directly in a module that others are nested under, shared prefixes
        mods = r.choice([["tests"], ["tests", "sub"], ["tests", "sub", "deep"], ["a"], ["a", "b"], []])
        return "::".join(mods + [r.choice(["alpha", "case", "deep_case", "t", "a", "sub", "é"])])
    return "".join(r.choice(ALPHA) for _ in range(r.randint(1, 4)))


def gen_scenario(r, allow_dups=True):
    ntests = r.choice([0, 1, 2, 3, 4, 5, 6, 8, 11])
    names = []
    while len(names) < ntests:
        nm = gen_name(r)
        if nm.strip() != nm or nm in names:
            continue
        names.append(nm)
    ign = [nm for nm in names if r.random() < 0.4]
    conv = r.choices(["libtest", "custom", "dups", "mixed"], [6, 2, 1 if allow_dups else 0, 2])[0]
    non_ignored = list(names) if conv != "custom" else [n for n in names if n not in ign]
    if conv == "mixed":
        # a harness whose `--list --ignored` output names some tests its plain `--list` output leaves out
        # (the ignored listing is then not a sub-list of the full one)
        non_ignored = [n for n in names if n not in ign or r.random() < 0.5]
    ignored = list(ign)
    if conv == "dups" and names:
        non_ignored.append(r.choice(names))
        if ign:
            ignored.append(r.choice(ign))
    r.shuffle(non_ignored)
    r.shuffle(ignored)
    skips = [r.choice(["a", "b", "_", "ab", "é"]) for _ in range(r.choice([0, 0, 1, 2]))]
    # positional name patterns and -E filtersets (test(~s)), alone and together with --skip: the
    # partition applies after all of them, whichever of them accepted the test
    pats = [r.choice(["a", "b", "_", "0", "B", "é"]) for _ in range(r.choice([0, 0, 0, 1, 2]))]
    exprs = [r.choice(["a", "b", "_", "0", "B", "é"]) for _ in range(r.choice([0, 0, 0, 1, 2]))]
    return dict(names=names, ign=ign, conv=conv, non_ignored=non_ignored, ignored=ignored,
                ri=r.choice(["default", "default", "only", "all"]), skips=skips, pats=pats, exprs=exprs,
                kind=r.choice(["count", "hash"]), n=r.choice([1, 2, 3, 5, 7]))


def list_case(sc, m):
    return dict(op="list", kind=sc["kind"] if m else None, m=m or 0, n=sc["n"], ri=sc["ri"],
                skips=sc["skips"], pats=sc.get("pats", []), exprs=sc.get("exprs", []),
                non_ignored=sc["non_ignored"], ignored=sc["ignored"])


def coq_pb(kind, m, n):
    if kind is None:
        return "None"
    return f"(Some (mkpb {'PCount' if kind == 'count' else 'PHash'} {m} {n}))"


RI = {"default": "RIDefault", "only": "RIOnly", "all": "RIAll"}


def coq_list_case(c):
    return (f"enc (obs (process_output {coq_pb(c['kind'], c['m'], c['n'])} "
            f"(pre_of {RI[c['ri']]} {coq_list([coq_str(s) for s in c['skips']])} "
            f"{coq_list([coq_str(s) for s in c.get('pats', [])])} "
            f"{coq_list([coq_str(s) for s in c.get('exprs', [])])}) "
            f"{coq_list([coq_str(s) for s in c['non_ignored']])} "
            f"{coq_list([coq_str(s) for s in c['ignored']])}))")


def norm_impl_list(res):
    return [[ign, code] + [ord(ch) for ch in nm] for nm, ign, code in res]


def oracle_scenario(sc, results):
    """results: {m: impl listing} with m=0 the unpartitioned baseline. Returns a failing clause or None.
    Independent of the Coq model; only for duplicate-free scenarios."""
    base = {nm: (ign, code) for nm, ign, code in results[0]}
    n = sc["n"]
    shards = {m: {nm: (ign, code) for nm, ign, code in results[m]} for m in range(1, n + 1)}
    for nm, (ign, code) in base.items():
        sel = [m for m in range(1, n + 1) if shards[m].get(nm, (None, None))[1] == 0]
        if code == 0:
            if len(sel) != 1:
                return f"test {nm!r} passes all other filters but is selected by shards {sel} of {n}"
            if sc["kind"] == "hash" and sel[0] != py_xxh64(nm.encode()) % n + 1:
                return f"hash shard of {nm!r} is {sel[0]}, xxh64 mod {n} + 1 = {py_xxh64(nm.encode()) % n + 1}"
        else:
            if sel:
                return f"test {nm!r} is rejected by another filter (code {code}) yet selected by shards {sel}"
            for m in range(1, n + 1):
                if shards[m].get(nm) != (ign, code):
                    return f"test {nm!r}: reason changed from {code} to {shards[m].get(nm)} in shard {m}"
    if sc["kind"] == "count":
        for cls in (0, 1):
            acc = sorted(nm for nm, (ign, code) in base.items() if ign == cls and code == 0)
            for m in range(1, n + 1):
                want = acc[m - 1::n]
                got = sorted(nm for nm, (ign, code) in shards[m].items() if ign == cls and code == 0)
                if want != got:
                    return (f"count shard {m}/{n}, {'ignored' if cls else 'non-ignored'} tests: selected {got}, "
                            f"every {n}-th of {acc} beginning with the {m}-th is {want}")
    return None


def f21_class(sc, base_listing):
    """the class of known finding F21, decided on the unpartitioned listing of the implementation:
    count sharding and, in this binary, both the non-ignored and the ignored tests that pass all
    other filters leave a remainder modulo n (only possible under --run-ignored all)."""
    if sc["kind"] != "count":
        return False
    a = sum(1 for _, ign, code in base_listing if ign == 0 and code == 0)
    b = sum(1 for _, ign, code in base_listing if ign == 1 and code == 0)
    return a % sc["n"] >= 1 and b % sc["n"] >= 1


def oracle_sizes(sc, results):
    """the literal last clause of the property: count shard sizes differ by at most one per binary.
    Returns (spread, sizes)."""
    sizes = [sum(1 for _, _, code in results[m] if code == 0) for m in range(1, sc["n"] + 1)]
    return max(sizes) - min(sizes), sizes


def known_entry():
    for f in vlib.known_findings().get("findings", []):
        if f.get("property") == PROP and f.get("id") == "F21":
            return f["what"]
    return None


def corpus():
    p = os.path.join(vlib.VERIF, "corpus", "C13.json")
    return json.load(open(p)) if os.path.exists(p) else []


def cli_stage(chk, r, thorough):
    """oracle:cli-shards -- the real `cargo nextest list --partition ...` over the scripted puppet workspace, every
    shard of a few partitions, under the environments a fleet of machines may differ in (log level): disjoint,
    covering, placed as documented, whatever the log level of each shard's machine"""
    import e2e
    try:
        rig = e2e.Rig()
    except RuntimeError as ex:
        chk.violation("broken-obligation", "e2e-build", dict(error=str(ex)[-3000:]), no_input=True)
        return
    names_a = ["a", "b_i", "c", "d", "e_i", "f", "g"] + [f"x{r.randrange(1000):03d}" for _ in range(r.randint(0, 3))]
    names_b = ["p", "q_i", "r"]
    scen = {"bins": {"alpha::t1": {"tests": {n: {"ignored": n.endswith("_i"), "attempts": [{"exit": 0}]} for n in names_a}},
                     "beta::t1": {"tests": {n: {"ignored": n.endswith("_i"), "attempts": [{"exit": 0}]} for n in names_b}}}}
    ri = r.choice(["all", "default", "all"])

    def listing(part, log):
        args = ["--message-format", "json", "--run-ignored", ri] + (["--partition", part] if part else [])
        res = rig.run(scen, "", args=args, subcommand="list", timeout=60,
                      env_extra={"NEXTEST_LOG": log} if log else None)
        rig.cleanup(res)
        try:
            suites = json.loads(res["stdout"])["rust-suites"]
        except (ValueError, KeyError):
            return None, res
        out = {}
        for b in ("alpha::t1", "beta::t1"):
            tc = suites.get(b, {}).get("testcases", {})
            out[b] = [(n, int(t["ignored"]), 0 if t["filter-match"]["status"] == "matches" else
                       {"ignored": 1, "string": 2, "expression": 3, "partition": 4, "default-filter": 5}.get(
                           t["filter-match"].get("reason"), 9)) for n, t in sorted(tc.items())]
        return out, res

    base, res0 = listing(None, None)
    if base is None:
        chk.violation("counterexample", "oracle:cli-shards", dict(clause="unpartitioned listing failed",
                                                                    stderr=res0["stderr"][-1500:], rc=res0["rc"]))
        return
    plans = [("count", 2, ["debug", "debug"]), ("count", 3, [None, "debug", None]), ("hash", 2, ["debug", None])]
    if thorough:
        plans += [("count", 2, [None, "debug"]), ("count", 5, ["trace"] * 5), ("hash", 3, ["debug"] * 3)]
    for kind, n, logs in plans:
        shards = {}
        for m in range(1, n + 1):
            got, res = listing(f"{kind}:{m}/{n}", logs[m - 1])
            chk.count("cli_shard_listings")
            chk.count(f"cli_shard_log={logs[m - 1] or 'default'}")
            if got is None:
                chk.violation("counterexample", "oracle:cli-shards",
                              dict(clause=f"listing of shard {kind}:{m}/{n} failed", rc=res["rc"], stderr=res["stderr"][-1500:]))
                return
            shards[m] = got
        for b in ("alpha::t1", "beta::t1"):
            sc = dict(kind=kind, n=n, names=[x[0] for x in base[b]], ri=ri)
            results = {0: base[b]}
            results.update({m: shards[m][b] for m in shards})
            why = oracle_scenario(sc, results)
            if why:
                chk.violation("counterexample", "oracle:cli-shards",
                              dict(input=dict(binary=b, tests=base[b], partition=f"{kind}:M/{n}", run_ignored=ri,
                                              NEXTEST_LOG_per_shard=logs),
                                   clause=why, impl={str(k): v for k, v in results.items()}))
                return
    chk.sample(dict(cli_shards=dict(run_ignored=ri, tests=len(names_a) + len(names_b), partitions=[p[:2] for p in plans])))


def run(tier, seed):
    chk = vlib.Check(PROP, tier, seed)
    gate = vlib.coq_gate(PROP)
    vlib.gate_or_violation(chk, gate)
    # DESIGN 11.7 (fourth round): TestFilter::filter_match as a whole (ignored -> name / expression -> partition ->
    # Matches, with name_match and filter_expression_match) is regenerated from the Rust source and proved equal to
    # Model/FilterFull.v's filter_match_full for all inputs; a failure is reported when the check finishes unless a
    # stage below finds a concrete failing input
    gen_tie.gate(chk, ['filter_match'], gate, family="glue")
    binary, err = vlib.build_harness()
    if binary is None:
        chk.violation("broken-obligation", "harness-build", dict(error=err), no_input=True)
        return chk.finish(gate, "make -C coq Properties/C13.vo", [])
    r = vlib.rng_for(seed, PROP)
    thorough = tier == "thorough"

    # ---- corr:xxh64 -------------------------------------------------------------------------
    nx = 3000 if thorough else 400
    blobs = [b"", b"a", b"abc", bytes(range(32)), bytes(range(33)), bytes(range(64)), bytes(range(100))]
    for ln in range(0, 72):
        blobs.append(bytes(r.randrange(256) for _ in range(ln)))
    while len(blobs) < nx:
        blobs.append(bytes(r.randrange(256) for _ in range(r.randint(0, 100))))
    impl = vlib.run_impl(binary, "partition", [dict(op="xxh", bytes=list(b)) for b in blobs])
    model = vlib.coq_eval("c13x", IMPORTS, [f"xxh64 {coq_list([str(x) for x in b])} 0" for b in blobs])
    for b, i, m in zip(blobs, impl, model):
        chk.count("xxh64_cases")
        chk.count(f"xxh64_len_mod32={len(b) % 32 // 8}x")
        if int(i) != m or m != py_xxh64(b):
            chk.violation("counterexample", "corr:xxh64",
                          dict(input=list(b), impl=i, model=str(m), reference=str(py_xxh64(b)),
                               clause="hash sharding uses xxHash64 with seed 0"))
            break
    chk.sample(dict(xxh64_of=list(blobs[8]), value=str(model[8])))

    # ---- corr:partitioner-seq (public API) ----------------------------------------------------
    seqs = []
    for _ in range(600 if thorough else 120):
        n = r.choice([1, 2, 3, 4, 7, 10, 2 ** 32 + 1, 2 ** 63 + 5, 2 ** 64 - 1])
        m = r.choice([1, n, r.randint(1, min(n, 12))])
        names = [gen_name(r) for _ in range(r.randint(0, 12))]
        seqs.append(dict(op="seq", kind=r.choice(["count", "hash"]), m=m, n=n, names=names))
    mod_names = ["alpha", "tests::alpha", "tests::sub::deep_case", "tests::sub::x::y", "tests::t", "tests::sub::deep_case2",
                 "zeta::a", "zeta", "zeta::a::b"]
    for n in (2, 3, 16):
        for names in (mod_names, sorted(mod_names), mod_names[1:], [mod_names[2]], sorted(mod_names)[::2]):
            seqs.append(dict(op="seq", kind="hash", m=1, n=n, names=list(names)))
    impl = vlib.run_impl(binary, "partition", seqs)
    model = vlib.coq_eval("c13s", IMPORTS, [
        f"seq_run (mkpb {'PCount' if c['kind'] == 'count' else 'PHash'} {c['m']} {c['n']}) 0 "
        f"{coq_list([coq_str(s) for s in c['names']])}" for c in seqs], PRELUDE)
    for c, i, m in zip(seqs, impl, model):
        chk.count("partitioner_seq_cases")
        if i != m:
            # oracle: does the implementation's own answer break the documented rule?
            want = [int(py_xxh64(nm.encode()) % c["n"] == c["m"] - 1) for nm in c["names"]] \
                if c["kind"] == "hash" else [int(k % c["n"] == c["m"] - 1) for k in range(len(c["names"]))]
            chk.violation("counterexample" if i != want else "broken-obligation", "corr:partitioner-seq",
                          dict(input=c, impl=i, model=m, documented=want), no_input=(i == want))
            break
    chk.sample(dict(partitioner_seq=seqs[0], answers=impl[0]))

    # ---- corr:process-output (hook H4) + oracle ------------------------------------------------
    scenarios = [dict(names=["a_i", "b", "c_i", "d"], ign=["a_i", "c_i"], conv="libtest",
                      non_ignored=["a_i", "b", "c_i", "d"], ignored=["a_i", "c_i"], ri="default",
                      skips=[], kind="count", n=2),
                 # F21 witness (C13_count_sizes_per_binary_refuted): a, b(ignored), --run-ignored all
                 dict(names=["a", "b"], ign=["b"], conv="libtest", non_ignored=["a", "b"], ignored=["b"],
                      ri="all", skips=[], kind="count", n=2),
                 # the ignored listing is not a sub-list of the plain listing: b_i is only named by --list --ignored
                 dict(names=["a", "b_i", "c", "d_i", "e", "f_i", "g"], ign=["b_i", "d_i", "f_i"], conv="mixed",
                      non_ignored=["a", "c", "d_i", "e", "f_i", "g"], ignored=["b_i", "d_i", "f_i"], ri="default",
                      skips=[], kind="count", n=2),
                 # names of which one is a proper prefix of another and continues with a byte below ':' (the listing
                 # lines are "name: test"): name order is the order of the names, not of the lines
                 dict(names=["parse", "parse2", "case_1", "case_10", "slow", "slow2", "zeta", "a-b", "a"],
                      ign=["slow", "slow2"], conv="libtest",
                      non_ignored=["a", "a-b", "case_1", "case_10", "parse", "parse2", "slow", "slow2", "zeta"],
                      ignored=["slow", "slow2"], ri="all", skips=[], kind="count", n=2),
                 dict(names=["parse", "parse2", "case_1", "case_10", "zeta"], ign=[], conv="libtest",
                      non_ignored=["zeta", "parse2", "parse", "case_10", "case_1"], ignored=[], ri="default",
                      skips=[], kind="count", n=3),
                 # a test accepted by a name filter AND by a filterset is still partitioned
                 dict(names=["net_a", "net_b", "net_c", "io_a", "net_d", "io_b"], ign=[], conv="libtest",
                      non_ignored=["net_a", "net_b", "net_c", "io_a", "net_d", "io_b"], ignored=[], ri="default",
                      skips=[], pats=["_"], exprs=["net"], kind="hash", n=2),
                 dict(names=["net_a", "net_b", "net_c", "io_a", "net_d", "io_b"], ign=["net_b"], conv="libtest",
                      non_ignored=["net_a", "net_b", "net_c", "io_a", "net_d", "io_b"], ignored=["net_b"], ri="all",
                      skips=["io"], pats=[], exprs=["_"], kind="count", n=3)] + corpus()
    while len(scenarios) < (700 if thorough else 90):
        scenarios.append(gen_scenario(r))
    cases, index = [], []
    for si, sc in enumerate(scenarios):
        for m in range(0, sc["n"] + 1):
            cases.append(list_case(sc, m))
            index.append((si, m))
    impl = vlib.run_impl(binary, "partition", cases)
    model = vlib.coq_eval("c13l", IMPORTS, [coq_list_case(c) for c in cases], PRELUDE)
    per_sc = {}
    mismatch = None
    for (si, m), c, i, mo in zip(index, cases, impl, model):
        chk.count("process_output_cases")
        if isinstance(i, dict):
            chk.violation("counterexample", "corr:process-output", dict(input=c, impl=i, model=mo))
            mismatch = "reported"
            break
        per_sc.setdefault(si, {})[m] = i
        if norm_impl_list(i) != mo and mismatch is None:
            mismatch = (si, c, i, mo)
    distinct = set()
    oracle_fail = None
    size_checks = []
    known_what = known_entry()
    for si, sc in enumerate(scenarios):
        if si not in per_sc or len(per_sc[si]) != sc["n"] + 1:
            continue
        chk.count(f"scenario_{sc['kind']}_{sc['conv']}_ri={sc['ri']}")
        chk.count("filters=" + ("+".join(k for k in ("skips", "pats", "exprs") if sc.get(k)) or "none"))
        if len(sc["names"]) >= 2 and sc["n"] >= 2:
            distinct.add(json.dumps([sc["names"], sc["ign"], sc["kind"], sc["n"], sc["ri"], sc["skips"],
                                     sc.get("pats", []), sc.get("exprs", [])]))
        if sc["conv"] == "dups":
            continue
        why = oracle_scenario(sc, per_sc[si])
        if why is None and sc["kind"] == "count":
            spread, sizes = oracle_sizes(sc, per_sc[si])
            in_class = f21_class(sc, per_sc[si][0])
            size_checks.append((si, in_class))
            if spread > 1:
                if in_class and spread == 2 and sc["ri"] == "all" and known_what is not None:
                    # exactly the listed failure: both ignored classes restart at shard 1
                    chk.known_finding(known_what)
                    chk.count("known_f21_per_binary_spread_2")
                else:
                    why = (f"count shard sizes of one binary are {sizes} (differ by {spread}); documented: "
                           f"differ by at most one per binary"
                           + ("" if in_class else "; the input is outside the class of known finding F21"))
            elif in_class:
                # inside the class the spread is exactly two (C13_count_sizes_per_binary_known_is_two)
                why = (f"count shard sizes {sizes} of a binary in the F21 class differ by {spread}, "
                       f"the model proves exactly 2")
        if why and oracle_fail is None:
            oracle_fail = (sc, why, per_sc[si])
    if oracle_fail:
        sc, why, res = oracle_fail
        chk.violation("counterexample", "oracle:shards",
                      dict(input=sc, clause=why, impl={str(k): v for k, v in res.items()}))
    elif mismatch and mismatch != "reported":
        si, c, i, mo = mismatch
        chk.violation("broken-obligation", "corr:process-output",
                      dict(input=c, impl=i, model=[[x[0], x[1], decode_str(x[2:])] for x in mo],
                           note="implementation and model disagree; the shard oracle accepted every "
                                "explored scenario"), no_input=True)
    chk.sample(dict(scenario=scenarios[1] if len(scenarios) > 1 else scenarios[0]))
    chk.sample(dict(process_output_case=cases[1], impl=impl[1]))

    # ---- corr:f21-class: the model's class predicate on the same scenarios ------------------------
    if size_checks and not oracle_fail:
        exprs = []
        for si, _ in size_checks:
            sc = scenarios[si]
            exprs.append(f"(if f21_class (pre_of {RI[sc['ri']]} {coq_list([coq_str(x) for x in sc['skips']])} "
                         f"{coq_list([coq_str(x) for x in sc.get('pats', [])])} "
                         f"{coq_list([coq_str(x) for x in sc.get('exprs', [])])}) "
                         f"{coq_list([coq_str(x) for x in sc['non_ignored']])} "
                         f"{coq_list([coq_str(x) for x in sc['ignored']])} {sc['n']} then 1 else 0)")
        model = vlib.coq_eval("c13k", IMPORTS, exprs, PRELUDE)
        for (si, in_class), mo in zip(size_checks, model):
            chk.count("f21_class_cases")
            chk.count(f"f21_class={int(in_class)}")
            if bool(mo) != in_class:
                chk.violation("broken-obligation", "corr:f21-class",
                              dict(input=scenarios[si], model_class=mo, observed_class=in_class,
                                   note="the Coq class predicate of known finding F21 and the class decided "
                                        "on the implementation's unpartitioned listing disagree"),
                              no_input=True)
                break

    # ---- corr:parse-shards (PartitionerBuilder::from_str vs the model of parse_shards) ------------
    pstrs = []
    for kind in ("hash", "count"):
        for m in (0, 1, 2, 3, 7):
            for n in (0, 1, 2, 3, 7):
                pstrs.append(f"{kind}:{m}/{n}")
    U = 2 ** 64
    pstrs += ["", "hash:", "count:", "hash", "count", "hash:1", "count:2", "hash:/", "count:1/", "hash:/2",
              "count:1/2/3", "hash:1//2", "count:+1/+2", "hash:+1/2", "count:++1/2", "hash:+/1", "count:1/+",
              "hash:-1/2", "count:1/-2", "hash:01/002", "count:000/000", "hash:0/0", "count:1/0", "hash:0/1",
              "count: 1/2", "hash:1 /2", "count:1/ 2", "hash:1/2 ", " count:1/2", "count:1/2\n", "hash:\t1/2",
              "Count:1/2", "HASH:1/2", "hash :1/2", "hash=1/2", "1/2", "count:1_0/20", "hash:1e1/20",
              "count:0x1/2", "hash:1.0/2", "count:١/٢", "hash:１/２", "count:1/2é", "hash:𝟏/𝟐",
              f"count:1/{U - 1}", f"count:{U - 1}/{U - 1}", f"hash:1/{U}", f"hash:{U}/{U}", f"count:{U}/1",
              f"count:1/{U * 10}", f"hash:{U - 1}/{U - 2}", "count:99999999999999999999999999/1",
              "hash:1/99999999999999999999999999", "count:hash:1/2", "hash:count:1/2", "count:1/2:3"]
    PCH = ["0", "1", "2", "3", "9", "+", "-", "/", " ", ":", "a", "x", "_", "٣"]
    for _ in range(1500 if thorough else 250):
        shape = r.random()
        if shape < 0.5:      # near-valid: digits with an occasional stray character
            def num():
                t = "".join(r.choice("0123456789") for _ in range(r.randint(1, 3)))
                if r.random() < 0.15:
                    t = "+" + t
                if r.random() < 0.12:
                    k = r.randrange(len(t) + 1)
                    t = t[:k] + r.choice(PCH) + t[k:]
                return t
            body = num() + ("/" if r.random() < 0.9 else "") + num()
            pre = r.choice(["hash:", "count:", "count:", "hash:", "hash", "count", "Hash:", ""])
            pstrs.append(pre + body)
        elif shape < 0.8:    # boundary values around u64::MAX and m vs n
            n = r.choice([1, 2, 3, U - 2, U - 1, U, U + 1, r.randrange(1, 50)])
            m = r.choice([0, 1, n - 1, n, n + 1, r.randrange(0, 60)])
            pstrs.append(f"{r.choice(['hash', 'count'])}:{max(m, 0)}/{n}")
        else:                # character soup
            pstrs.append(r.choice(["hash:", "count:", ""]) +
                         "".join(r.choice(PCH) for _ in range(r.randint(0, 7))))
    impl = vlib.run_impl(binary, "partition", [dict(op="parse", s=x) for x in pstrs])
    model = vlib.coq_eval("c13p", IMPORTS, [f"parse_obs {coq_str(x)}" for x in pstrs], PRELUDE)
    for x, i, mo in zip(pstrs, impl, model):
        chk.count("parse_cases")
        iv = [int(v) for v in i]
        chk.count("parse_accepted" if iv[0] else "parse_rejected")
        if iv != mo:
            # the documented rule: "hash:M/N" or "count:M/N" with integers 1 <= M <= N
            documented_ok = bool(re.fullmatch(r"(hash|count):\+?[0-9]+/\+?[0-9]+", x)) and \
                1 <= int(x.split(":")[1].split("/")[0]) <= int(x.split("/")[1]) < U
            impl_breaks_rule = (iv[0] != 0) != documented_ok
            chk.violation("counterexample" if impl_breaks_rule else "broken-obligation", "corr:parse-shards",
                          dict(input=x, impl=i, model=mo,
                               clause="--partition must be hash:M/N or count:M/N with 1 <= M <= N (u64)"),
                          no_input=not impl_breaks_rule)
            break
        if iv[0] and not (1 <= iv[1] <= iv[2] < U):
            chk.violation("counterexample", "oracle:parse-shards",
                          dict(input=x, impl=i, clause="accepted shards must satisfy 1 <= m <= n"))
            break
    chk.sample(dict(parse_case=pstrs[60], impl=impl[60]))

    cli_stage(chk, r, thorough)

    chk.assumptions = [
        "other filters are abstracted as an arbitrary function pre(name, ignored) in the theorems",
        "process_output's BTreeMap is modelled as a name-sorted association list",
        "libtest listing convention (all tests without --ignored, ignored ones with it) for the oracle",
        "whole-listing count theorems assume each listing duplicate-free (scenarios with a repeated name are "
        "compared model-vs-implementation only)",
        "the literal clause 'count shard sizes differ by at most one per binary' is evaluated by the oracle; its "
        "failure on the class F21 (known_findings.json) is reported as KNOWN-FINDING, anything else as a violation",
    ]
    return chk.finish(
        gate, "make -C coq Properties/C13.vo && coqc gen/assump_C13.v (Print Assumptions)",
        ["Coq 8.16.1 kernel + vm_compute", "hand-written model Model/{Xxh64,Filter,Partition}.v tied by "
         "corr:xxh64, corr:partitioner-seq, corr:process-output (hook H4), corr:parse-shards (PartitionerBuilder::from_str "
         "on well-formed and malformed strings), corr:f21-class",
         "Python generators/canonicalisers in props/C13.py", "harness/src/partition.rs"],
        dict(evaluations=sum(v for k, v in chk.counts.items() if k.endswith("_cases")),
             distinct_nontrivial=len(distinct),
             rule="scenario = (test names, ignored subset, listing convention, run-ignored mode, skip "
                  "patterns, partition kind, n); each evaluated for the unpartitioned baseline and every "
                  "m in 1..n; non-trivial = at least 2 tests and n >= 2; distinct by that tuple",
             traces_validated_against_impl=len(cases)))


def replay(path, seed):
    d = json.load(open(path))
    print(json.dumps(d, indent=1)[:3000])
    binary, err = vlib.build_harness()
    inp = d.get("input")
    if isinstance(inp, dict) and "non_ignored" in inp and "op" not in inp:
        res = {m: vlib.run_impl(binary, "partition", [list_case(inp, m)])[0] for m in range(0, inp["n"] + 1)}
        why = oracle_scenario(inp, res)
        print("oracle:", why or "accepts")
        return 1 if why else 0
    return 2   # not a kind of record this function knows how to replay (the driver then re-runs the check)
