"""C09 -- slow marking, termination only at the deadline, SIGTERM then SIGKILL. Theorems in
Properties/C09.v about Model/UnitTimers.v; end-to-end correspondence of the closed-loop model
simulation with real nextest runs over the scripted puppet; oracle from the property text."""
import json, os
import vlib, e2e, units_e2e as U, gen_tie

PROP = "C09"


def gen(r, n):
    scs = []
    # fixed corner cases first
    scs.append(dict(u=150, period=1, ta=2, grace=1, leak=0.7, dur=6, on_term="ignore", sigs=[]))
    scs.append(dict(u=150, period=1, ta=1, grace=0, leak=0.7, dur=3.5, on_term="ignore", sigs=[]))
    scs.append(dict(u=150, period=1, ta=None, grace=1, leak=0.7, dur=2.5, on_term="exit", sigs=[]))
    scs.append(dict(u=150, period=2, ta=2, grace=1, leak=0.7, dur=0.5, on_term="exit", sigs=[]))
    # a descendant in the same process group that also ignores SIGTERM: the whole group is killed
    scs.append(dict(u=150, period=1, ta=1, grace=1, leak=0.7, dur=6, on_term="ignore", child=True, sigs=[]))
    scs.append(dict(u=150, period=1, ta=2, grace=2, leak=0.7, dur=7.5, on_term="ignore", child=True, sigs=[]))
    # the same for a setup script (its own slow-timeout; failure => exit 105, no test starts)
    scs.append(dict(u=150, period=1, ta=2, grace=1, leak=0.7, dur=6, on_term="ignore", sigs=[], as_script=True))
    scs.append(dict(u=150, period=1, ta=None, grace=1, leak=0.7, dur=2.5, on_term="exit", sigs=[], as_script=True))
    scs.append(dict(u=150, period=2, ta=1, grace=0, leak=0.7, dur=4.5, on_term="ignore", sigs=[], as_script=True))
    # stop / continue in the middle of a period: the deadline is in running time, so termination comes
    # no earlier than terminate-after full periods of it (and the remembered period survives the resume)
    scs.append(dict(u=150, period=2, ta=2, grace=1, leak=0.7, dur=7.5, on_term="exit",
                    sigs=[(1, "TSTP"), (3, "CONT")]))
    scs.append(dict(u=150, period=1, ta=3, grace=0, leak=0.7, dur=6.5, on_term="ignore",
                    sigs=[(0.5, "TSTP"), (1.5, "CONT"), (2, "TSTP"), (3, "CONT")]))
    # the same machinery under --no-capture (own process group, termination of the whole group)
    scs.append(dict(u=150, period=1, ta=2, grace=1, leak=0.7, dur=6, on_term="ignore", child=True, sigs=[],
                    no_capture=True))
    scs.append(dict(u=150, period=1, ta=1, grace=0, leak=0.7, dur=3.5, on_term="ignore", sigs=[], no_capture=True))
    scs.append(dict(u=150, period=1, ta=2, grace=1, leak=0.7, dur=6, on_term="ignore", child=True, sigs=[], direct_spawn=True))
    # terminated at the deadline and, in addition, a descendant that ignores SIGTERM keeps the test's stdout open
    # past the leak timeout: the attempt is still reported as timed out (not as a leak / a plain failure)
    scs.append(dict(u=150, period=1, ta=2, grace=3, leak=0.7, dur=7, on_term="exit", hold=3, sigs=[]))
    scs.append(dict(u=150, period=1, ta=1, grace=3, leak=0.7, dur=7, on_term=("late_ok", 0.5), hold=3, sigs=[]))
    # terminated at the deadline, then exits with status 0 within the grace period: still a timeout
    scs.append(dict(u=150, period=1, ta=2, grace=2, leak=0.7, dur=6, on_term=("late_ok", 0.5), sigs=[]))
    scs.append(dict(u=150, period=1, ta=1, grace=2, leak=0.7, dur=6, on_term=("late_ok", 0.5), sigs=[],
                    as_script=True))
    # the run is cancelled by another test's failure (fail-fast, no signal) while the subject, terminated at its
    # deadline, is inside its grace period and about to exit by itself: SIGKILL only when the grace period ends
    scs.append(dict(u=150, period=1, ta=1, grace=4, leak=0.7, dur=6, on_term=("late_ok", 1.5), sigs=[], cancel_at=1.7))
    scs.append(dict(u=150, period=1, ta=2, grace=3, leak=0.7, dur=7, on_term=("late", 1.5), sigs=[], cancel_at=2.6))
    # ... and cancelled before the deadline: terminated at the deadline all the same, not earlier
    scs.append(dict(u=150, period=1, ta=2, grace=1, leak=0.7, dur=6, on_term="exit", sigs=[], cancel_at=0.8))
    while len(scs) < n:
        period = r.choice([1, 2])
        ta = r.choice([None, 1, 2, 3])
        grace = r.choice([0, 1, 2])
        k = r.choice([0, 1, 2, 3, 4])
        dur = k * period + r.choice([0.5, period - 0.5] if period > 1 else [0.5])
        if dur > 7:
            dur = 6.5
        on_term = r.choice(["exit", "ignore", ("late", r.choice([0.5, 1.5])), ("late_ok", r.choice([0.5, 1.5]))])
        if isinstance(on_term, tuple) and abs(on_term[1] - grace) < 0.45:
            on_term = "ignore"
        sc = dict(u=150, period=period, ta=ta, grace=grace, leak=0.7, dur=dur, on_term=on_term, sigs=[])
        if r.random() < 0.3:
            sc["child"] = True
        elif ta and r.random() < 0.35:
            t0 = r.choice([0, 1, 2]) + 0.5
            if t0 + 0.45 < min(dur, ta * period):
                sc["sigs"] = [(t0, "TSTP"), (t0 + r.choice([1, 2]), "CONT")]
        scs.append(sc)
    return scs


def run(tier, seed):
    chk = vlib.Check(PROP, tier, seed)
    ok, msg = U.regen_table()
    if not ok:
        chk.violation("broken-obligation", "pause-table-translator", dict(error=msg), no_input=True)
    gate = vlib.coq_gate(PROP, extra_targets=["Model/UnitEnv.vo", "gen/GenPauseTable.vo"])
    vlib.gate_or_violation(chk, gate)
    # DESIGN 11.7: these decision functions are regenerated from the Rust source and proved equal to the
    # model's for all inputs; a failure is reported when the check finishes unless a stage below finds a
    # concrete failing input
    gen_tie.gate(chk, ['timeout_terminate_method', 'spawn_setup'], gate)
    # DESIGN 11.2e: terminate_child's entry and its grace-expiry arm are regenerated from the source and proved
    # equal to the model's (target of the signals: the process group)
    U.arms_gate(chk, PROP, gate)
    try:
        rig = e2e.Rig()
    except RuntimeError as ex:
        chk.violation("broken-obligation", "e2e-build", dict(error=str(ex)[-3000:]), no_input=True)
        return chk.finish(gate, "make -C coq Properties/C09.vo", [])
    r = vlib.rng_for(seed, PROP)
    scs = gen(r, 90 if tier == "thorough" else 27)
    U.check_family(chk, rig, scs, U.oracle_C09, "c09")
    for sc in scs[:3]:
        chk.sample(sc)
    distinct = len({json.dumps([s["period"], s["ta"], s["grace"], s["dur"], s["on_term"]]) for s in scs
                    if s.get("ta") and s["dur"] > s["period"]})
    chk.assumptions = ["timer accuracy and signal delivery latency within 0.45 time units (68 ms at u = 150 ms); "
                       "failures that depend on a measured time must reproduce with the unit doubled twice",
                       "setup scripts share the wait loop text with tests in the model; both kinds are exercised end to end",
                       "history theorems (Properties/C09.v) hold under the environment premise of Model/UnitMonitor.v "
                       "(dispatcher alternation + nextest's own stop) and up to the first shutdown request"]
    return chk.finish(gate, "make -C coq Properties/C09.vo + Print Assumptions",
                      ["Coq 8.16.1 kernel + vm_compute", "Model/UnitTimers.v, Model/UnitEnv.v (hand-written), "
                       "tied by end-to-end runs (hook H1 tap, puppet signal log)", "lib/units_e2e.py, e2e/puppet.py",
                       "harness/src/bin/pause_table.rs"],
                      dict(evaluations=chk.counts.get("e2e_runs", 0), distinct_nontrivial=distinct,
                           rule="scenario = (period, terminate-after, grace, duration, reaction to SIGTERM, descendant); "
                                "non-trivial = terminate-after set and the test outlives one period",
                           traces_validated_against_impl=chk.counts.get("e2e_runs", 0)))


def replay(path, seed):
    d = json.load(open(path))
    print(json.dumps(d, indent=1)[:4000])
    runs = d.get("runs") or []
    if not runs:
        return 0
    rig = e2e.Rig()
    sc = runs[0]["scenario"]
    o = U.run_scenarios(rig, [sc], par=1)[0]
    why = U.oracle_C09(sc, o)
    print("oracle:", why or "accepts", "| compare:", U.compare(sc, U.predict([sc])[0], o))
    return 1 if why else 0
