"""C20 — filterset parsing is total; printing a parsed expression round-trips.
Theorems: Properties/C20.v. Correspondence: the character-level parser / printer model
(Model/FiltersetParse.v, evaluated with vm_compute) against ParsedExpr::parse, Filterset::parse and
the Display impls of the real crate on valid, mutated, token-soup and garbage strings. Oracle
(independent of the model): on the implementation's own answers -- every failure carries at least
one error, every span lies inside the input, parse(print(e)) == e for everything that parsed,
and no crash on deep nesting (child process)."""
import json, os, subprocess
import vlib
from props import filterset_common as F

PROP = "C20"

# F6 witnesses and a few regression strings; always replayed first
CORPUS = [
    "test(it's)", 'test(say "hi")',                      # F6a
    "test(\\u{3d}foo)", "test(\\u{20}foo)", "kind(\\u{7e}x)", "package(\\u{23}crate_a)",  # F6b
    "test(/a\\\\/b/)",                                    # F6c
    "", " ", "all()", "all(foo)", "test()", "test(a) or(test(b))", "not(test(a))", "test(a) ||test(b)",
    "test(a) AND test(b)", "test(\\", "test(\\é)", "binaryfoo(x)", "test(a,b)", "test(a", "test a)",
    "platform( host )", "platform(linux)", "platform()", "default( )", "none(\t)", "test(/a", "test(/a/",
    "test(/(/)", "test(#[a)", "package([a)", "test(\\u{110000})", "test(\\u{d800})", "test(\\u{1234567})",
    "test(\\u{})", "test(\\u{41})", "test(\\u{41)", "!test(a)", "! ! test(a)", "not not test(a)", "(test(a)",
    "test(a))", "((test(a)))", "test(a) & (test(b) | test(c)) - test(d)", "test(a)&test(b)|test(c)-test(d)",
    "test(a)and test(b)", "test(a) and\ntest(b)", "test(a) and", "test(a) +", "| test(a)", "test (a)",
    "test( a )", "test(= a )", "test(~)", "test(/a/ )", "test(/a/x)", "test(#a*) ", "\ttest(a)", "test(a)\r",
    "test(a)\r\n", "binary_id(crate_a)", "binary(crate_a)", "deps(crate_d)", "rdeps(crate_a)", "kind(lib)",
]


def corpus():
    p = os.path.join(vlib.VERIF, "corpus", "C20.json")
    extra = json.load(open(p)) if os.path.exists(p) else []
    return CORPUS + [s for s in extra if s not in CORPUS]


def gen_strings(r, tier):
    thorough = tier == "thorough"
    n_valid, n_mut, n_soup, n_garb = (18000, 18000, 15000, 9000) if thorough else (700, 700, 550, 350)
    out = []   # (source, string, expected AST or None)
    valid = []
    for _ in range(n_valid):
        t = F.gen_tree(r, r.choice([0, 1, 2, 2, 3, 3, 4, 5]), compilable=r.random() < 0.8, allow_bad=r.random() < 0.1)
        txt, ast = F.render(r, t, noise=r.random() < 0.7)
        valid.append(txt)
        out.append(("valid", txt, ast))
    for _ in range(n_mut):
        s = r.choice(valid)
        for _ in range(r.choice([1, 1, 1, 2, 3])):
            s = F.mutate(r, s)
        out.append(("mutated", s, None))
    for _ in range(n_soup):
        out.append(("soup", F.gen_soup(r), None))
    for _ in range(n_garb):
        out.append(("garbage", F.gen_garbage(r), None))
    return out


def has_bad_engine_text(ast):
    return any((m[1] == 2 and m[3] in F.BAD_GLOBS) or (m[1] == 3 and m[3] in F.BAD_REGEXES)
               for m in F.matchers_of(ast))


def compare(chk, src, s, iv, mv, expected, fx_status, counters, viols):
    """one string: correspondence + oracle. Appends (kind, name, detail, no_input) to viols."""
    def bad(kind, name, detail, no_input=False):
        counters[name] = counters.get(name, 0) + 1
        if counters[name] <= 2:
            d = dict(input=s, source=src, impl=dict(pe_ok=iv["valid"], ast=iv["ast"], printed=iv["printed"],
                                                    fs_ok=iv["fs_ok"], parse_errors=iv["parse_errors"],
                                                    compile_errors=iv["compile_errors"], pe_errors=iv["pe_errors"]),
                     model=mv)
            d.update(detail)
            viols.append((kind, name, d, no_input))

    # ---- property oracle on the implementation alone
    orc_ok = True
    if iv.get("panic"):
        bad("counterexample", "oracle:total", dict(clause="parsing panicked: " + str(iv["panic"])))
        return False
    if not iv["fs_ok"] and not (iv["parse_errors"] or iv["compile_errors"]):
        orc_ok = False
        bad("counterexample", "oracle:error-nonempty",
            dict(clause="parsing failed without any error that carries a span", errors=iv["spanless"]))
    if not iv["valid"] and not iv["pe_errors"]:
        orc_ok = False
        bad("counterexample", "oracle:error-nonempty", dict(clause="ParsedExpr::parse failed with an empty error list"))
    for (k, off, ln) in iv["parse_errors"] + iv["compile_errors"] + [e for e in iv["pe_errors"] if len(e) == 3]:
        if off + ln > iv["length"]:
            orc_ok = False
            bad("counterexample", "oracle:span-within",
                dict(clause=f"error {k} has span ({off},{ln}) outside the input of {iv['length']} bytes"))
    # ---- correspondence with the model
    m_valid = mv["ast"] is not None
    m_errs = [(k, o, l) for (k, o, l, _) in mv["errors"]]
    if any(k == "OutOfFuel" for k, _, _ in m_errs):
        bad("broken-obligation", "model:out-of-fuel", dict(clause="the model ran out of fuel"), True)
    if iv["valid"] != m_valid:
        bad("broken-obligation" if orc_ok else "counterexample", "corr:parse-valid",
            dict(clause="ParsedExpr::parse and the model disagree on whether an expression results"), orc_ok)
        return orc_ok
    if m_valid and F.ast_to_json(iv["ast"]) != F.ast_to_json(mv["ast"]):
        bad("broken-obligation", "corr:parse-ast", dict(clause="parsed expression differs (modulo spans)"), True)
        return orc_ok
    impl_has_errs = bool(iv["parse_errors"] or iv["spanless"])
    if impl_has_errs != bool(m_errs):
        bad("broken-obligation", "corr:parse-errors",
            dict(clause="implementation and model disagree on whether parse errors were reported"), True)
    elif iv["spanless"]:
        # NOT COMPARABLE (1): an error variant without a span (ParseSingleError::Unknown and variants the
        # harness does not know) has no (kind, span) pair; counted, and oracle:error-nonempty still applies
        counters["uncompared:spanless-error"] = counters.get("uncompared:spanless-error", 0) + 1
    elif sorted(tuple(e) for e in iv["parse_errors"]) != sorted(m_errs):
        # HARD: wherever both report parse errors, the same multiset of (kind, offset, length)
        bad("broken-obligation", "corr:parse-error-details",
            dict(clause="Filterset::parse and the model report different multisets of (error kind, span)",
                 impl_errors=sorted(tuple(e) for e in iv["parse_errors"]), model_errors=sorted(m_errs)), True)
    else:
        counters["compared:error-details"] = counters.get("compared:error-details", 0) + len(m_errs)
    if not iv["valid"]:
        # ParsedExpr::parse (the public entry point without a compile step) reports its own list
        pe3 = sorted(e for e in iv["pe_errors"] if len(e) == 3)
        if len(pe3) != len(iv["pe_errors"]):
            counters["uncompared:spanless-error"] = counters.get("uncompared:spanless-error", 0) + 1
        elif m_errs and pe3 != sorted(m_errs):
            bad("broken-obligation", "corr:parse-error-details",
                dict(clause="ParsedExpr::parse and the model report different multisets of (error kind, span)",
                     impl_errors=pe3, model_errors=sorted(m_errs)), True)
    if expected is not None and iv["valid"] and not iv["parse_errors"]:
        # the generator knows which tree the documented grammar assigns to its own text
        if F.ast_to_json(expected) != F.ast_to_json(iv["ast"]):
            bad("counterexample", "oracle:documented-grammar",
                dict(clause="the expression parsed differs from the tree the text was rendered from",
                     expected=expected))
    elif expected is not None and not has_bad_engine_text(expected):
        bad("counterexample", "oracle:documented-grammar",
            dict(clause="a well-formed expression was rejected", expected=expected))
    if m_valid and iv["printed"] != mv["printed"]:
        ast = iv["ast"]
        excused = (fx_status["F6a"] == "finding" and F.known_quotes(ast)) or \
                  (fx_status["F6b"] == "finding" and F.known_leading(ast)) or \
                  (fx_status["F6c"] == "finding" and F.known_regex_pair(ast))
        if not excused:
            bad("broken-obligation", "corr:print", dict(clause="Display output differs from the model printer"), True)
    return orc_ok


# ---- F6d: where the real parser dies on nesting.  Measured 2026-10-01 with a probe linking
# nextest-filtering alone (docs/notes/C20.md has the table): smallest depth that kills the process,
# in nesting LEVELS (one per "(", "!" or "not "; the unit "!(" is two levels):
#   build opt-level 1 (this harness): 8 MiB main thread 4186 ("("), 8720 ("!"), 5656 ("!(");
#                                     2 MiB thread      1043,       2173,       1410
#   release:                          8 MiB 5627 / 12761 / 7812;    2 MiB 1403 / 3181 / 1948
#   opt-level 0:                      8 MiB 1018 / 2033 / 1358;     2 MiB  253 /  504 /  338
# i.e. >= 521 levels per MiB of stack at opt-level >= 1.  The known-finding class starts at 375
# levels per MiB (3000 on the 8 MiB main thread nextest parses on, 750 on a 2 MiB thread): a crash
# below that is a VIOLATION, not F6d.
MIB = 1024 * 1024
LEVELS = {"(": 1, "!": 1, "not ": 1, "!(": 2}
UNIT_NAMES = {"(": "paren", "!": "bang", "not ": "not", "!(": "bang_paren"}
F6D_LEVELS_PER_MIB = 375
MAIN_STACK, THREAD_STACK = 8 * MIB, 2 * MIB


def f6d_boundary(stack_bytes):
    """nesting levels from which a crash is the known finding F6d (opt-level >= 1 builds)"""
    return F6D_LEVELS_PER_MIB * stack_bytes // MIB


def _main_stack_limit():
    """the stack the child's main thread gets: 8 MiB if the hard limit allows, else the soft limit"""
    import resource
    soft, hard = resource.getrlimit(resource.RLIMIT_STACK)
    if hard == resource.RLIM_INFINITY or hard >= MAIN_STACK:
        return MAIN_STACK, True
    return (soft if soft != resource.RLIM_INFINITY else hard), False


def deep_case(binary, unit, close, depth, stack, main_limit):
    """one nested expression in a child process; stack = 0: on the child's main thread"""
    import resource
    case = dict(op="deep", unit=unit, close=close, depth=depth, leaf="all()")
    if stack:
        case["stack"] = stack

    def limit():
        if main_limit[1]:
            _, hard = resource.getrlimit(resource.RLIMIT_STACK)
            resource.setrlimit(resource.RLIMIT_STACK, (main_limit[0], hard))
    try:
        p = subprocess.run([binary, "filterset"], input=json.dumps(case) + "\n", capture_output=True,
                           text=True, timeout=300, env=vlib.ENV, preexec_fn=limit)
        rc, out = p.returncode, p.stdout.strip()
    except subprocess.TimeoutExpired:
        rc, out = "timeout", ""
    obs = json.loads(out.splitlines()[-1]) if rc == 0 and out else None
    return rc, obs


def deep_nesting(chk, binary, tier):
    """Each of '(', '!', 'not ', '!(' nested on the main thread (8 MiB, where nextest parses) and on a
    2 MiB thread, each case in its own child process: (a) depths 10, 100 and 90 % of the class boundary
    must parse, print and re-parse; (b) the smallest depth that kills the process is located by
    bisection between the boundary and 12 x the boundary and recorded."""
    res, thresholds = [], []
    main_limit = _main_stack_limit()
    for stack, stack_bytes in ((0, main_limit[0]), (THREAD_STACK, THREAD_STACK)):
        boundary = f6d_boundary(stack_bytes)
        for unit, close in (("(", ")"), ("!", ""), ("not ", ""), ("!(", ")")):
            lv = LEVELS[unit]

            def probe(d):
                rc, obs = deep_case(binary, unit, close, d, stack, main_limit)
                chk.count("deep_nesting_cases")
                res.append(dict(unit=unit, depth=d, levels=d * lv, stack=stack_bytes, boundary=boundary, rc=rc, obs=obs))
                return rc == 0
            below = sorted({10, 100, max(1, (boundary * 9 // 10) // lv)})
            for d in below:
                probe(d)
            lo, hi = max(1, (boundary - 1) // lv), 12 * boundary // lv
            if tier == "thorough":
                hi = max(hi, 100000)
            first_bad = None
            if not probe(hi):
                if probe(lo):
                    while hi - lo > 1:
                        mid = (lo + hi) // 2
                        if probe(mid):
                            lo = mid
                        else:
                            hi = mid
                    first_bad = hi
                else:
                    first_bad = lo
            thresholds.append(dict(unit=unit, stack=stack_bytes, boundary_levels=boundary,
                                   first_failing_levels=None if first_bad is None else first_bad * lv))
    return res, thresholds


def run(tier, seed):
    chk = vlib.Check(PROP, tier, seed)
    gate = vlib.coq_gate(PROP)
    vlib.gate_or_violation(chk, gate)
    binary, err = vlib.build_harness()
    if binary is None:
        chk.violation("broken-obligation", "harness-build", dict(error=err), no_input=True)
        return chk.finish(gate, "make -C coq Properties/C20.vo", [])
    r = vlib.rng_for(seed, PROP)
    status = F.finding_status()
    fx = tuple(status[k] != "finding" for k in ("F6a", "F6b", "F6c"))

    items = [("corpus", s, None) for s in corpus()] + gen_strings(r, tier)
    seen, uniq = set(), []
    for it in items:
        if it[1] not in seen:
            seen.add(it[1])
            uniq.append(it)
    items = uniq
    counters, viols = {}, []
    distinct = set()
    rt_fail = []

    def one_round(tag, items):
        strings = [s for _, s, _ in items]
        impl = F.run_filterset(binary, [dict(op="parse", s=s) for s in strings])
        model, tables = F.model_parse(tag, binary, strings, fx)
        views = []
        for (src, s, exp), io, mv in zip(items, impl, model):
            chk.count("parse_cases")
            chk.count("source_" + src)
            if "panic" in io:
                iv = dict(panic=io["panic"], valid=False, ast=None, printed=None, fs_ok=False, parse_errors=[],
                          compile_errors=[], pe_errors=[], spanless=[], length=len(s.encode()))
            else:
                iv = F.impl_parse_view(io)
            compare(chk, src, s, iv, mv, exp, status, counters, viols)
            views.append(iv)
            if iv["valid"] and not iv["parse_errors"]:
                chk.count("outcome_parsed")
                if F.tree_depth(iv["ast"]) >= 1:
                    distinct.add(json.dumps(iv["ast"]))
                for k, v in F.tree_ops(iv["ast"]).items():
                    chk.count(k, v)
            else:
                chk.count("outcome_rejected")
                if iv["parse_errors"]:
                    distinct.add("E:" + s)
                for e in iv["parse_errors"]:
                    chk.count("error_" + e[0])
        return views

    views1 = one_round("c20r1", items)

    # ---- parse -> print -> parse on everything that parsed (oracle on the implementation; the
    #      printed strings are also fresh correspondence cases)
    printed = []
    for (src, s, _), iv in zip(items, views1):
        if iv["valid"] and not iv["parse_errors"] and not iv.get("panic"):
            printed.append(("printed", iv["printed"], None, s, iv["ast"]))
    items2 = [(a, b, c) for a, b, c, _, _ in printed]
    views2 = one_round("c20r2", items2) if items2 else []
    known_seen = set()
    for (_, p, _, s, ast), iv2 in zip(printed, views2):
        chk.count("roundtrip_cases")
        ok = iv2["valid"] and not iv2["parse_errors"] and F.ast_to_json(iv2["ast"]) == F.ast_to_json(ast)
        if ok:
            continue
        cls = [fid for fid, pred in (("F6a", F.known_quotes), ("F6b", F.known_leading), ("F6c", F.known_regex_pair))
               if pred(ast)]
        listed = [fid for fid in cls if status[fid] == "finding"]
        if listed:
            known_seen.update(listed)
            continue
        counters["oracle:roundtrip"] = counters.get("oracle:roundtrip", 0) + 1
        if counters["oracle:roundtrip"] <= 3:
            viols.append(("counterexample", "oracle:roundtrip",
                          dict(input=s, parsed=ast, printed=p,
                               reparsed=iv2["ast"], reparse_errors=iv2["parse_errors"] or iv2["pe_errors"],
                               clause="parsing the printed expression does not give back the expression",
                               known_class=cls), False))
    kf = {f["id"]: f for f in vlib.known_findings().get("findings", []) if f.get("property") == PROP}
    for fid in sorted(known_seen):
        chk.known_finding(kf[fid]["what"])

    # ---- deep nesting in child processes
    deep, thresholds = deep_nesting(chk, binary, tier)
    crash = [d for d in deep if d["rc"] != 0]
    for d in deep:
        if d["rc"] == 0 and d["obs"] and not (d["obs"].get("ok") and d["obs"].get("reparse_ok") and d["obs"].get("same_print")):
            viols.append(("counterexample", "oracle:deep-roundtrip", dict(input=d, clause="deeply nested expression "
                          "did not parse / print / re-parse"), False))
    f6d_seen = False
    for d in crash:
        if status["F6d"] == "finding" and d["levels"] >= d["boundary"] and "F6d" in kf:
            f6d_seen = True
            chk.count("deep_nesting_crashes")
        else:
            counters["oracle:total"] = counters.get("oracle:total", 0) + 1
            if counters["oracle:total"] <= 3:
                viols.append(("counterexample", "oracle:total",
                              dict(input=dict(unit=d["unit"], depth=d["depth"], nesting_levels=d["levels"],
                                              stack_bytes=d["stack"], known_class_starts_at_levels=d["boundary"]),
                                   impl=str(d["rc"]),
                                   clause="the parser process died on a nested expression below the depth at which "
                                          "the known stack overflow F6d starts"), False))
    if f6d_seen:
        chk.known_finding(kf["F6d"]["what"])
    for t in thresholds:
        if t["first_failing_levels"] is not None:
            chk.count("deep_threshold_levels_per_mib_%s_%dMiB" % (UNIT_NAMES[t["unit"]], t["stack"] // MIB),
                      t["first_failing_levels"] * MIB // t["stack"])
    chk.sample(dict(deep_nesting_thresholds=thresholds))

    for kind, name, detail, no_input in viols:
        chk.violation(kind, name, detail, no_input=no_input)
    for k, v in counters.items():
        chk.count(k.replace(":", "_") if k.startswith(("compared:", "uncompared:")) else "mismatch_" + k, v)
    for it, iv in list(zip(items, views1))[70:74]:
        chk.sample(dict(source=it[0], input=it[1], parsed=iv["ast"], errors=iv["parse_errors"]))
    chk.assumptions = [
        "glob and regex validity (and regex_syntax error spans) are oracles: per-case tables from the real engines",
        "source spans inside the AST are not compared; error kinds and spans ARE (corr:parse-error-details: same multiset "
        "of (kind, offset, length) for Filterset::parse and for ParsedExpr::parse). Not comparable: error variants "
        "without a span (counted as uncompared:spanless-error); error messages / the engine text inside InvalidGlob / "
        "InvalidRegex; the span of an InvalidRegex is regex_syntax's own span fed to the model as an oracle answer, so "
        "that comparison is not independent; compile errors (NoPackageMatch, BannedPredicate, ...) are C05's, only "
        "their spans are checked to lie within the input",
        "F6d class boundary: %d nesting levels per MiB of stack (opt-level >= 1 builds); a crash below it is a violation" % F6D_LEVELS_PER_MIB,
        "termination of the real parser on deep nesting is observed in child processes, not proved",
        "strings are sequences of Unicode scalar values; byte offsets are computed from UTF-8 lengths",
    ]
    return chk.finish(
        gate, "make -C coq Properties/C20.vo && coqc gen/assump_C20.v (Print Assumptions)",
        ["Coq 8.16.1 kernel + vm_compute",
         "hand-written model Model/FiltersetParse.v tied by corr:parse-valid, corr:parse-ast, corr:parse-errors, corr:parse-error-details, corr:print",
         "Python generators / Debug-output reader in props/filterset_common.py", "harness/src/filterset.rs"],
        dict(evaluations=chk.counts.get("parse_cases", 0) + chk.counts.get("deep_nesting_cases", 0),
             distinct_nontrivial=len(distinct),
             rule="strings: regression corpus, grammar-directed expressions rendered with random spellings / "
                  "parentheses / whitespace, 1-3 character-level mutations of those, token soup, random Unicode; every "
                  "string that parses is printed and the printed text is a further case. non-trivial = parsed to a tree "
                  "with at least one operator (distinct by tree) or rejected with at least one parse error (distinct by "
                  "string)",
             traces_validated_against_impl=chk.counts.get("parse_cases", 0),
             printer_fixes_expected=dict(zip(("F6a", "F6b", "F6c"), fx))))


def replay(path, seed):
    d = json.load(open(path))
    print(json.dumps(d, indent=1)[:4000])
    binary, err = vlib.build_harness()
    s = d.get("input")
    if isinstance(s, dict) and "unit" in s and "depth" in s:
        # a deep-nesting counterexample: re-run that nesting in a child process
        unit = s["unit"]
        close = ")" if unit.endswith("(") else ""
        stack = 0 if s.get("stack_bytes", MAIN_STACK) >= MAIN_STACK else s["stack_bytes"]
        rc, obs = deep_case(binary, unit, close, s["depth"], stack, _main_stack_limit())
        print(f"deep nesting unit={unit!r} depth={s['depth']} stack={s.get('stack_bytes')}: rc={rc} obs={obs}")
        okay = rc == 0 and obs and obs.get("ok") and obs.get("reparse_ok") and obs.get("same_print")
        if not okay:
            print("FAILS: oracle:total / oracle:deep-roundtrip")
        return 0 if okay else 1
    if not isinstance(s, str):
        return 0
    status = F.finding_status()
    fx = tuple(status[k] != "finding" for k in ("F6a", "F6b", "F6c"))
    io = F.run_filterset(binary, [dict(op="parse", s=s)])[0]
    mv, _ = F.model_parse("c20rp", binary, [s], fx)
    iv = F.impl_parse_view(io)
    chk = vlib.Check(PROP, "quick", seed)
    counters, viols = {}, []
    compare(chk, "replay", s, iv, mv[0], None, status, counters, viols)
    if iv["valid"] and not iv["parse_errors"]:
        io2 = F.impl_parse_view(F.run_filterset(binary, [dict(op="parse", s=iv["printed"])])[0])
        if not (io2["valid"] and F.ast_to_json(io2["ast"]) == F.ast_to_json(iv["ast"])):
            viols.append(("counterexample", "oracle:roundtrip", dict(printed=iv["printed"], reparsed=io2["ast"]), False))
    print("implementation:", json.dumps(io)[:1500])
    print("model:", json.dumps(mv[0], default=str)[:1500])
    for v in viols:
        print("FAILS:", v[1], v[2].get("clause"))
    return 1 if viols else 0
