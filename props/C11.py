"""C11 -- shutdown signals reach every running unit, escalate to SIGKILL, nextest exits. Theorems in
Properties/C11.v (unit side); end-to-end: real signals to a real nextest over the scripted puppet."""
import json, os
import vlib, e2e, units_e2e as U, gen_tie

PROP = "C11"
SIGS = ["INT", "TERM", "HUP", "QUIT"]


def gen(r, n):
    scs = []
    for s in SIGS:  # each signal while simply running, test ignores it: same signal, then SIGKILL at grace
        scs.append(dict(u=150, period=20, ta=None, grace=2, leak=0.7, dur=9, on_term="ignore", sigs=[(1.5, s)]))
    scs.append(dict(u=150, period=20, ta=None, grace=0, leak=0.7, dur=9, on_term="ignore", sigs=[(1.5, "TERM")]))
    scs.append(dict(u=150, period=20, ta=None, grace=4, leak=0.7, dur=12, on_term="ignore",
                    sigs=[(1.5, "INT"), (2.5, "INT")]))
    scs.append(dict(u=150, period=20, ta=None, grace=2, leak=0.7, dur=9, on_term="ignore", child=True, sigs=[(1.5, "TERM")]))
    # under --no-capture: the signal still reaches the whole group, SIGKILL at the end of the grace period
    scs.append(dict(u=150, period=20, ta=None, grace=2, leak=0.7, dur=9, on_term="ignore", child=True, sigs=[(1.5, "HUP")],
                    no_capture=True))
    scs.append(dict(u=150, period=20, ta=None, grace=2, leak=0.7, dur=9, on_term="ignore", child=True, sigs=[(1.5, "QUIT")],
                    direct_spawn=True))
    # a unit that sorts earlier is waiting out a retry delay when the first signal comes (it then
    # returns without a Finished event); the second signal must still reach the stubborn test
    scs.append(dict(u=150, period=20, ta=None, grace=12, leak=0.7, dur=16, on_term="ignore",
                    retry_companion=dict(delay=30), sigs=[(1.5, "TERM"), (3.5, "INT")]))
    scs.append(dict(u=150, period=20, ta=None, grace=10, leak=0.7, dur=14, on_term="ignore",
                    retry_companion=dict(delay=30), sigs=[(2.5, "INT"), (4.5, "TERM")]))
    # while draining leaked handles: the signal changes neither the verdict nor the wait
    scs.append(dict(u=150, period=20, ta=None, grace=2, leak=2, dur=1.5, hold=6, on_term="exit", sigs=[(2.5, "INT")]))
    scs.append(dict(u=150, period=20, ta=None, grace=2, leak=3, dur=0.5, hold=7, on_term="exit", sigs=[(1.5, "TERM")]))
    # the test dies of the forwarded signal, a descendant ignoring it keeps the output open for a long time: nextest
    # exits when the leak timeout has passed -- under split capture and under combined capture (libtest-json)
    scs.append(dict(u=150, period=20, ta=None, grace=3, leak=2, dur=9, hold=24, on_term="exit", sigs=[(1.5, "TERM")]))
    scs.append(dict(u=150, period=20, ta=None, grace=3, leak=2, dur=9, hold=24, on_term="exit", sigs=[(1.5, "INT")],
                    message_format="libtest-json"))
    scs.append(dict(u=150, period=20, ta=None, grace=3, leak=1, dur=9, hold=24, on_term="exit", sigs=[(2.5, "HUP")],
                    message_format="libtest-json-plus"))
    # stopped and continued while the grace period after the shutdown signal is running: the grace period still ends
    # (in running time) and the stubborn test is killed then
    scs.append(dict(u=150, period=20, ta=None, grace=4, leak=0.7, dur=16, on_term="ignore",
                    sigs=[(1.5, "TERM"), (2.5, "TSTP"), (4.5, "CONT")]))
    # SIGQUIT is a shutdown signal whatever nextest's debugging switches are set to in the environment, short of
    # the documented "1"
    scs.append(dict(u=150, period=20, ta=None, grace=2, leak=0.7, dur=9, on_term="ignore", sigs=[(1.5, "QUIT")],
                    env={"__NEXTEST_SIGQUIT_AS_INFO": "0"}))
    # a setup script running when the signal comes
    scs.append(dict(u=150, period=20, ta=None, grace=2, leak=0.7, dur=9, on_term="ignore", sigs=[(1.5, "INT")], as_script=True))
    scs.append(dict(u=150, period=20, ta=None, grace=3, leak=0.7, dur=9, on_term="ignore", sigs=[(1.5, "HUP"), (2.5, "HUP")], as_script=True))
    # during a timeout grace period
    scs.append(dict(u=150, period=1, ta=1, grace=4, leak=0.7, dur=12, on_term="ignore", sigs=[(2.5, "TERM")]))
    # the signal is sent while nextest has stopped itself (SIGTSTP earlier): it is received at SIGCONT -- the
    # test gets it then, the grace period counts from then, nextest exits
    scs.append(dict(u=150, period=20, ta=None, grace=2, leak=0.7, dur=12, on_term="ignore",
                    sigs=[(1.5, "TSTP"), (2.5, "TERM"), (3.5, "CONT")]))
    scs.append(dict(u=150, period=20, ta=None, grace=2, leak=0.7, dur=12, on_term="exit",
                    sigs=[(1.5, "TSTP"), (2.5, "INT"), (3.5, "CONT")]))
    scs.append(dict(u=150, period=20, ta=None, grace=0, leak=0.7, dur=12, on_term="ignore",
                    sigs=[(1.5, "TSTP"), (2.5, "HUP"), (3.5, "CONT")]))
    while len(scs) < n:
        s1 = r.choice(SIGS)
        t1 = r.choice([1.5, 2.5])
        grace = r.choice([0, 2, 3])
        on_term = r.choice(["exit", "ignore", "ignore", ("late", 0.5), ("late_ok", 0.5)])
        sigs = [(t1, s1)]
        if r.random() < 0.4:
            sigs.append((t1 + 1, r.choice(SIGS)))
        sc = dict(u=150, period=20, ta=None, grace=grace, leak=0.7, dur=r.choice([6.5, 9]), on_term=on_term, sigs=sigs)
        if r.random() < 0.3:
            sc.update(period=1, ta=1, grace=max(grace, 3), sigs=[(2.5, s1)])
        if r.random() < 0.4:
            sc["child"] = True
        if r.random() < 0.3:
            sc["bystander"] = 0.5
        if sc["period"] == 20 and len(sigs) == 1 and isinstance(on_term, str) and r.random() < 0.25:
            sc["sigs"] = [(t1 - 1, "TSTP"), (t1, s1), (t1 + 1, "CONT")]   # sent while stopped
        scs.append(sc)
    return scs


def run(tier, seed):
    chk = vlib.Check(PROP, tier, seed)
    ok, msg = U.regen_table()
    if not ok:
        chk.violation("broken-obligation", "pause-table-translator", dict(error=msg), no_input=True)
    gate = vlib.coq_gate(PROP, extra_targets=["Model/UnitEnv.vo", "gen/GenPauseTable.vo"])
    vlib.gate_or_violation(chk, gate)
    if ok:
        gate = U.merge_gates(gate, U.life_gate(chk))
    # DESIGN 11.7: these decision functions are regenerated from the Rust source and proved equal to the
    # model's for all inputs; a failure is reported when the check finishes unless a stage below finds a
    # concrete failing input
    gen_tie.gate(chk, ['shutdown_terminate_method', 'to_request', 'spawn_setup'], gate)
    # DESIGN 11.2e: the Shutdown arm of every wait loop, terminate_child's entry and its grace-expiry arm are
    # regenerated from the source and proved equal to the model's (reason, method, target: the process group)
    U.arms_gate(chk, PROP, gate)
    try:
        rig = e2e.Rig()
    except RuntimeError as ex:
        chk.violation("broken-obligation", "e2e-build", dict(error=str(ex)[-3000:]), no_input=True)
        return chk.finish(gate, "make -C coq Properties/C11.vo", [])
    r = vlib.rng_for(seed, PROP)
    scs = gen(r, 84 if tier == "thorough" else 29)
    life_scs = []
    if U.check_family(chk, rig, scs, U.oracle_C11, "c11"):
        # the whole life of a unit: shutdown signals landing in the retry delay, or consumed by an attempt that
        # then fails with retries left (no further attempt; nextest exits without sitting out the delay)
        def shutdown_mid_attempt(r):
            return [s for s in U.life_cancel(r) if s["family"].startswith("shutdown")]
        life_scs = U.life_stage(chk, rig, [U.life_shutdown_in_delay, shutdown_mid_attempt], "c11l",
                                vlib.rng_for(seed, PROP + ":life"), tier == "thorough")
    for sc in scs[:3]:
        chk.sample(sc)
    distinct = len({json.dumps([s["grace"], s["on_term"], s["sigs"], s.get("ta")]) for s in scs})
    chk.assumptions = ["kernel signal delivery; a process that leaves its process group is out of scope",
                       "retry-delay phase: exercised by the whole-life stage (Model/UnitLife.v, Model/UnitLifeEnv.v)",
                       "timing tolerance 0.45 time units; time-dependent failures must reproduce with the unit doubled"]
    return chk.finish(gate, "make -C coq Properties/C11.vo + Print Assumptions",
                      ["Coq 8.16.1 kernel + vm_compute", "Model/UnitTimers.v, Model/UnitEnv.v (hand-written), "
                       "tied by end-to-end runs with real signals", "lib/units_e2e.py, e2e/puppet.py"],
                      dict(evaluations=chk.counts.get("e2e_runs", 0), distinct_nontrivial=distinct,
                           rule="scenario = (signal(s) and times, grace, reaction, phase: running / in timeout grace, "
                                "descendant, bystander test); all contain at least one shutdown signal",
                           traces_validated_against_impl=chk.counts.get("e2e_runs", 0)))


def replay(path, seed):
    d = json.load(open(path))
    print(json.dumps(d, indent=1)[:4000])
    runs = d.get("runs") or []
    if not runs:
        return 0
    rig = e2e.Rig()
    sc = runs[0]["scenario"]
    o = U.run_scenarios(rig, [sc], par=1)[0]
    why = U.oracle_C11(sc, o)
    print("oracle:", why or "accepts", "| compare:",
          U.compare_any(sc, [U.predict([sc])[0], U.predict_alt([sc])[0]], o)[0])
    return 1 if why else 0
