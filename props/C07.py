"""C07 — retries: theorems (Properties/C07.v) + correspondence of the backoff model with nextest's
real BackoffIter / apply_jitter / deserialize_retry_policy (hook H3) + an independent oracle
(documented formulas: d; min(d*2^k, max); jitter between half and all of the delay) on the
implementation's own answers.

Tolerance (Duration::mul_f64 goes through f64): the implementation's delay must equal the
model's exact product whenever that product is below 2^51 ns (26 days); above, it may differ by
at most product * 2^-50. Cases whose cap comparison would depend on such a rounding are not
generated. The timing side (real sleeping, cancellation during the delay, attempt counts of real
processes) belongs to the end-to-end rig."""
import json, os
import vlib, gen_tie
from vlib import coq_list, coq_bool
from props import retry_rig as rig

PROP = "C07"
IMPORTS = ["Base.Str", "Model.Backoff", "Proofs.Backoff"]
PRELUDE = """
Definition enc_opt (l : list (option N)) : list (list N) :=
  map (fun o => match o with Some d => [d] | None => [] end) l.
Definition enc_pol (p : policy) : list N :=
  match p with
  | Fixed c d j => [0; c; d; (if j then 1 else 0); 0; 0]
  | Exponential c d j m => [1; c; d; (if j then 1 else 0);
                            (match m with Some _ => 1 | None => 0 end);
                            (match m with Some x => x | None => 0 end)]
  end.
Definition b2n (b : bool) : N := if b then 1 else 0.
Definition end_code (e : loop_end) : N :=
  match e with Finished => 0 | Refused => 1 | Panicked => 2 | OutOfFuel => 3 end.
Definition enc_run (x : list (attempt_rec bool) * loop_end) :=
  (map at_no (fst x), map at_delay_before (fst x), map (fun a => b2n (at_result a)) (fst x),
   map (fun a => jitter_range (at_delay_before a)) (fst x), end_code (snd x)).
Definition pattern (l : list bool) (dflt : bool) : N -> bool :=
  fun k => nth (N.to_nat k - 1) l dflt.
"""

NS, US, MS, S = 1, 10 ** 3, 10 ** 6, 10 ** 9
GRID = [1, 2, 3, 7, 999, 1 * US, 1 * MS, 150 * MS, 1 * S, 1500 * MS + 1, 60 * S, 3600 * S]
EXACT_BELOW = 1 << 51


def tol(model_ns):
    return 0 if model_ns < EXACT_BELOW else model_ns >> 50


# ---------------------------------------------------------------- documented behaviour (oracle)

def doc_delays(p):
    """the documented delay before retry k (k = 0 ..), None for 'no further retry'"""
    out = []
    for k in range(p["count"]):
        if p["kind"] == "fixed":
            out.append(p["delay"])
        else:
            d = p["delay"] * 2 ** k
            out.append(d if p["max_delay"] is None else min(d, p["max_delay"]))
    return out


def doc_jitter_ok(d, x):
    """between half and all of the value (whole nanoseconds: half itself only through rounding)"""
    return d <= 2 * x and x <= d


def doc_parse(spec):
    """documented schema of `retries`; returns ('ok', policy) | ('err',) for a spec dict"""
    if spec["form"] == "int":
        n = spec["n"]
        return ("ok", dict(kind="fixed", count=n, delay=0, jitter=False, max_delay=None)) if n >= 0 else ("err",)
    kind = spec["backoff"]
    if spec["count"] is None:
        return ("err",)
    delay, jitter, mx = spec["delay"], bool(spec["jitter"]), spec["max_delay"]
    if kind == "fixed":
        if mx is not None:
            return ("err",)                       # unknown key for fixed backoff
        d = delay or 0
        if d == 0 and jitter:
            return ("err",)
        return ("ok", dict(kind="fixed", count=spec["count"], delay=d, jitter=jitter, max_delay=None))
    if delay is None or delay == 0 or spec["count"] == 0:
        return ("err",)
    if mx is not None and (mx == 0 or mx < delay):
        return ("err",)
    return ("ok", dict(kind="exp", count=spec["count"], delay=delay, jitter=jitter, max_delay=mx))


# ---------------------------------------------------------------- generators

def coq_policy(p):
    if p["kind"] == "fixed":
        return f"(Fixed {p['count']} {p['delay']} {coq_bool(p['jitter'])})"
    m = "None" if p["max_delay"] is None else f"(Some {p['max_delay']})"
    return f"(Exponential {p['count']} {p['delay']} {coq_bool(p['jitter'])} {m})"


def case_of(p, op, take):
    return dict(op=op, kind=p["kind"], count=p["count"], delay=str(p["delay"]), jitter=p["jitter"],
                max_delay=None if p.get("max_delay") is None else str(p["max_delay"]), take=take)


def max_variants(d, c):
    """(tag, max_delay) options relative to the doubling sequence d*2^k, k < c"""
    out = [("none", None)]
    if d > 1:
        out.append(("<", d - 1))
    out.append(("=0", d))
    js = sorted({1, max(1, c // 2), max(1, c - 1)})
    for j in js:
        v = d * 2 ** j
        if v < EXACT_BELOW:
            out.append((f"=", v))
            out.append((f"=+1", v + 1))
            if v - 1 >= d:
                out.append((f"=-1", v - 1))
        out.append(("between", v + v // 2 if v >= 2 else v))
    out.append((">", d * 2 ** (c + 1) + 1))
    seen, res = set(), []
    for t, v in out:
        if v not in seen:
            seen.add(v)
            res.append((t, v))
    return res


def grid_policies(counts):
    for c in counts:
        for d in GRID:
            yield dict(kind="fixed", count=c, delay=d, jitter=False, max_delay=None, tag="fixed")
            for tag, mx in max_variants(d, c):
                yield dict(kind="exp", count=c, delay=d, jitter=False, max_delay=mx, tag="exp:" + tag)
        yield dict(kind="fixed", count=c, delay=0, jitter=False, max_delay=None, tag="fixed:zero")


def random_policy(r, max_count):
    c = r.choice([0, 1, 2, 3, 5, 8, 12, r.randint(0, max_count)])
    d = int(10 ** r.uniform(0, 12.55)) if r.random() < 0.8 else r.choice(GRID)
    d = max(1, min(d, 3600 * S))
    if r.random() < 0.3:
        return dict(kind="fixed", count=c, delay=r.choice([0, d]), jitter=False, max_delay=None, tag="rnd:fixed")
    tag, mx = r.choice(max_variants(d, max(c, 1)))
    return dict(kind="exp", count=c, delay=d, jitter=False, max_delay=mx, tag="rnd:exp:" + tag)


def corpus():
    p = os.path.join(vlib.VERIF, "corpus", "C07.json")
    return json.load(open(p)) if os.path.exists(p) else []


def fmt_dur(ns):
    return f"{ns}ns"


def toml_of(spec):
    if spec["form"] == "int":
        return f"retries = {spec['n']}"
    parts = [f'backoff = "{ "fixed" if spec["backoff"] == "fixed" else "exponential" }"']
    if spec["count"] is not None:
        parts.append(f"count = {spec['count']}")
    if spec["delay"] is not None:
        parts.append(f'delay = "{fmt_dur(spec["delay"])}"')
    if spec["jitter"] is not None:
        parts.append(f"jitter = {'true' if spec['jitter'] else 'false'}")
    if spec["max_delay"] is not None:
        parts.append(f'max-delay = "{fmt_dur(spec["max_delay"])}"')
    return "retries = { " + ", ".join(parts) + " }"


def parse_specs(r, thorough):
    specs = [dict(form="int", n=n) for n in (-3, -1, 0, 1, 5, 12)]
    for backoff in ("fixed", "exp"):
        for count in (None, 0, 1, 3):
            for delay in (None, 0, 1, 1 * S):
                for jitter in (None, False, True):
                    for mx in (None, 0, 1, 1 * S - 1, 1 * S, 2 * S):
                        specs.append(dict(form="table", backoff=backoff, count=count, delay=delay,
                                          jitter=jitter, max_delay=mx))
    if not thorough:
        # every accepted table, and a seeded sample of the rejected ones
        ok = [x for x in specs if doc_parse(x)[0] == "ok"]
        bad = [x for x in specs if doc_parse(x)[0] != "ok"]
        r.shuffle(bad)
        specs = ok + bad[:170]
    return specs


def pol_tuple(p):
    return [0 if p["kind"] == "fixed" else 1, p["count"], p["delay"], int(p["jitter"]),
            0 if p["max_delay"] is None else 1, p["max_delay"] or 0]


def impl_pol(v):
    kind, count, delay, jitter, mx = v
    return dict(kind=kind, count=count, delay=int(delay), jitter=bool(jitter),
                max_delay=None if mx is None else int(mx))



# ---------------------------------------------------------------- the attempt loop on real processes

def rig_policy(r, small=True):
    kind = r.choice(["fixed", "fixed", "exp"])
    c = r.choice([0, 1, 2, 3, 4])
    if kind == "fixed":
        d = r.choice([0, 0, 5 * MS, 20 * MS])
        return dict(kind="fixed", count=c, delay=d, jitter=bool(d) and r.random() < 0.3, max_delay=None)
    d = r.choice([5 * MS, 10 * MS])
    return dict(kind="exp", count=max(c, 1), delay=d, jitter=r.random() < 0.3,
                max_delay=r.choice([None, d, 15 * MS, 20 * MS, 25 * MS]))


def rig_scenario(r, idx):
    """~10 tests with their own / the profile's / a forced policy and a pass-fail pattern each"""
    profile = rig_policy(r) if r.random() < 0.7 else None
    force = None
    if r.random() < 0.35:
        n = r.choice([0, 1, 2, 3])
        force = dict(kind="fixed", count=n, delay=0, jitter=False, max_delay=None) if r.random() < 0.7 \
            else rig_policy(r)
    tests = {}
    for t in range(r.choice([6, 8, 10])):
        pol = rig_policy(r) if r.random() < 0.6 else None
        eff = force or pol or profile or dict(kind="fixed", count=0, delay=0, jitter=False, max_delay=None)
        n = eff["count"] + 2
        shape = r.choice(["never", "first", "at", "random"])
        if shape == "never":
            pat = [False] * n
        elif shape == "first":
            pat = [True] * n
        elif shape == "at":
            j = r.randint(1, n)
            pat = [k + 1 >= j for k in range(n)]
        else:
            pat = [r.random() < 0.4 for _ in range(n)]
        dflt = r.random() < 0.5
        code = lambda ok: 0 if ok else r.choice([1, 2, 101, 255])
        tests[f"t{idx}_{t}"] = dict(
            policy=pol, pattern=pat, dflt=dflt,
            default=dict(kind="exit", code=code(dflt)),
            attempts={k + 1: dict(kind="exit", code=code(ok)) for k, ok in enumerate(pat)})
    sc = dict(profile_retries=profile, force=force, bins={"ba": tests}, leak_timeout_ms=100,
              threads=r.choice([1, 4, 8]))
    # the policy given per profile: under the default profile, a custom one, or the built-in default-miri
    pn = r.choice(["default", "default", "ci", "default-miri"])
    if pn != "default":
        sc["profile_name"] = pn
    return sc


def directed_rig_scenarios():
    """always run, quick tier included: a forced policy (what --retries N builds, and a forced policy with
    its own delay) x tests whose own policy -- per-test override or profile -- is fixed with a delay /
    fixed with delay and jitter / exponential, x a failing first attempt. (Audit mutation M6: the
    forced policy replaced only the count when the test's own policy was Fixed{delay, jitter}.)"""
    def t(pol, pat, dflt=False):
        code = lambda ok: 0 if ok else 1
        return dict(policy=pol, pattern=pat, dflt=dflt, default=dict(kind="exit", code=code(dflt)),
                    attempts={k + 1: dict(kind="exit", code=code(ok)) for k, ok in enumerate(pat)})
    fixed = lambda c, d, j=False: dict(kind="fixed", count=c, delay=d, jitter=j, max_delay=None)
    out = []
    for force in (fixed(2, 0), fixed(1, 7 * MS)):
        out.append(dict(profile_retries=fixed(3, 25 * MS), force=force, leak_timeout_ms=100, threads=4, bins={"ba": {
            "m6_own_fixed": t(fixed(4, 30 * MS), [False, True]),
            "m6_own_fixed_jitter": t(fixed(4, 40 * MS, True), [False, False, False, False]),
            "m6_own_exp": t(dict(kind="exp", count=3, delay=20 * MS, jitter=False, max_delay=30 * MS), [False, False, True]),
            "m6_profile_fixed": t(None, [False, True]),
            "m6_profile_never": t(None, [False, False, False, False, False]),
            "m6_pass": t(fixed(1, 50 * MS), [True])}}))
    # the policy is given at the level of the selected profile: a custom profile and the built-in default-miri
    for pn in ("ci", "default-miri"):
        out.append(dict(profile_retries=fixed(2, 5 * MS), profile_name=pn, force=None, leak_timeout_ms=100, threads=4,
                        bins={"ba": {"p_flaky": t(None, [False, True]),
                                     "p_never": t(None, [False, False, False, False, False]),
                                     "p_own": t(fixed(1, 0), [False, False, False])}}))
    return out


def doc_attempts(eff, pat, dflt):
    """documented attempt count: min(first passing attempt, retries + 1)"""
    total = eff["count"] + 1
    for k in range(1, total + 1):
        ok = pat[k - 1] if k - 1 < len(pat) else dflt
        if ok:
            return k
    return total


def check_attempt_loop(chk, binary, r, thorough):
    scenarios = directed_rig_scenarios()
    scenarios += [rig_scenario(r, i) for i in range(48 if thorough else 6)]
    nsc = len(scenarios)
    cases = [rig.prepare(f"c07_{i}", sc) for i, sc in enumerate(scenarios)]
    results = [vlib.run_impl(binary, "backoff", [c], shards=1)[0] for c in cases]
    none = dict(kind="fixed", count=0, delay=0, jitter=False, max_delay=None)
    exprs, index = [], []
    for si, sc in enumerate(scenarios):
        for t, spec in sc["bins"]["ba"].items():
            settings = spec["policy"] or sc["profile_retries"] or none
            force = "None" if sc["force"] is None else f"(Some {coq_policy(sc['force'])})"
            exprs.append(f"enc_run (run_test_instance bool (fun b => b) {force} {coq_policy(settings)} "
                         f"(pattern {coq_list([coq_bool(b) for b in spec['pattern']])} {coq_bool(spec['dflt'])}) "
                         f"(fun _ => true) (fun _ => no_jitter_sample))")
            index.append((si, t))
    model = dict(zip(index, vlib.coq_eval("c07l", IMPORTS, exprs, PRELUDE)))
    problem = None
    mismatch = None
    for si, (sc, case, res) in enumerate(zip(scenarios, cases, results)):
        if "events" not in res or "error" in res:
            problem = problem or ("counterexample", dict(input=sc, impl=res, clause="the run failed"))
            continue
        log = rig.read_log(case, "ba")
        per = rig.per_test(res)
        for t, spec in sc["bins"]["ba"].items():
            chk.count("attempt_loop_cases")
            eff = sc["force"] or spec["policy"] or sc["profile_retries"] or none
            chk.count("loop_policy_" + ("forced" if sc["force"] else "override" if spec["policy"] else
                                        "profile" if sc["profile_retries"] else "default"))
            want_n = doc_attempts(eff, spec["pattern"], spec["dflt"])
            chk.count(f"loop_attempts={min(want_n, 5)}")
            base = doc_delays(eff)
            inv = log.get(t, [])
            rec = per.get(("ba", t))
            fin = rec and rec["finished"]
            ctx = dict(test=t, effective_policy=eff, pattern=spec["pattern"], default=spec["dflt"],
                       forced=sc["force"] is not None, invocations=[k for k, _, _ in inv],
                       reported=fin and fin["attempts"])
            # -- oracle on the ground-truth log and on what nextest reported
            why = None
            if [k for k, _, _ in inv] != list(range(1, want_n + 1)):
                why = (f"the test process was started for attempts {[k for k, _, _ in inv]}; documented: "
                       f"1..{want_n} (until an attempt passes or retries+1 attempts were made)")
            elif fin is None or [a["attempt"] for a in fin["attempts"]] != list(range(1, want_n + 1)):
                why = "nextest did not report exactly one finished test with attempts 1..n"
            else:
                for k in range(1, want_n):
                    d = base[k - 1]
                    lo = (d + 1) // 2 if eff["jitter"] else d
                    rep = int(fin["attempts"][k]["delay_before_start"])
                    announced = int(rec["will_retry"][k - 1]["delay"]) if k - 1 < len(rec["will_retry"]) else None
                    gap = inv[k][1] - (inv[k - 1][2] or inv[k - 1][1])
                    if not (lo <= rep <= d) or announced != rep:
                        why = (f"delay before attempt {k + 1}: reported {rep} ns (announced {announced}), documented "
                               f"{'between %d and ' % lo if eff['jitter'] else ''}{d} ns")
                    elif gap < rep - 2 * MS:
                        why = (f"attempt {k + 1} started {gap} ns after attempt {k} ended, sooner than the "
                               f"delay of {rep} ns")
                if why is None and any(a["total"] != eff["count"] + 1 for a in fin["attempts"]):
                    why = f"total_attempts is not retries + 1 = {eff['count'] + 1}"
                if why is None and int(fin["attempts"][0]["delay_before_start"]) != 0:
                    why = "the first attempt has a non-zero delay"
            if why and problem is None:
                problem = ("counterexample", dict(input=dict(scenario=sc["profile_retries"], force=sc["force"], **ctx),
                                                  clause=why))
            # -- correspondence with the model
            m_no, m_delay, m_res, m_rng, m_end = model[(si, t)]
            if fin is not None and mismatch is None:
                got_no = [a["attempt"] for a in fin["attempts"]]
                got_res = [int(a["result"][0] in (0, 1)) for a in fin["attempts"]]
                got_delay = [int(a["delay_before_start"]) for a in fin["attempts"]]
                ok = got_no == m_no and got_res == m_res and m_end == 0 and len(got_delay) == len(m_delay) and \
                    all((lo <= x <= hi) if eff["jitter"] else x == d
                        for x, d, (lo, hi) in zip(got_delay, m_delay, m_rng))
                if not ok:
                    mismatch = dict(input=ctx, model=dict(attempts=m_no, delays=m_delay, results=m_res, end=m_end))
    if problem:
        chk.violation(problem[0], "oracle:attempt-loop", problem[1])
    elif mismatch:
        chk.violation("broken-obligation", "corr:attempt-loop", mismatch, no_input=True)
    sc0 = scenarios[0]
    t0 = next(iter(sc0["bins"]["ba"]))
    chk.sample(dict(attempt_loop_test=dict(policy=sc0["bins"]["ba"][t0]["policy"], profile=sc0["profile_retries"],
                                           force=sc0["force"], pattern=sc0["bins"]["ba"][t0]["pattern"]),
                    reported=(rig.per_test(results[0]).get(("ba", t0)) or {}).get("finished")))
    for i in range(nsc):
        rig.cleanup(f"c07_{i}")
    return len({json.dumps([sc["force"], sc["profile_retries"], spec["policy"], spec["pattern"], spec["dflt"]])
                for sc in scenarios for spec in sc["bins"]["ba"].values()
                if (sc["force"] or spec["policy"] or sc["profile_retries"] or none)["count"] >= 1})


# ---------------------------------------------------------------- the check

def check_delay_lists(chk, pols, binary, tag):
    """jitter off: impl next() sequence == model iter_take == documented formula"""
    cases = [case_of(p, "delays", p["count"] + 2) for p in pols]
    impl = vlib.run_impl(binary, "backoff", cases)
    model = vlib.coq_eval(tag, IMPORTS, [
        f"enc_opt (iter_take {p['count'] + 2} [] (b_new {coq_policy(p)}))" for p in pols], PRELUDE)
    mism = None
    for p, c, i, m in zip(pols, cases, impl, model):
        chk.count("delay_list_cases")
        chk.count("policy_" + p["tag"].split(":")[0] + ("" if p["count"] else "_count0"))
        got = None if not isinstance(i, dict) or "delays" not in i else \
            [None if x is None else int(x) for x in i["delays"]]
        mod = [x[0] if x else None for x in m]
        doc = doc_delays(p) + [None, None]
        if got is None:
            chk.violation("counterexample", "corr:backoff-iter",
                          dict(input=c, impl=i, model=mod, clause="the iterator failed (panic?)"))
            return False

        def agree(a, b):
            return len(a) == len(b) and all(
                (x is None and y is None) or
                (x is not None and y is not None and abs(x - y) <= tol(y)) for x, y in zip(a, b))
        if not agree(got, doc):
            k = next((k for k, (x, y) in enumerate(zip(got, doc)) if not agree([x], [y])), len(doc))
            chk.violation("counterexample", "oracle:delays",
                          dict(input=c, impl=got, documented=doc, model=mod,
                               clause=f"delay before retry {k + 1}: implementation {got[k] if k < len(got) else '?'}, "
                                      f"documented {doc[k] if k < len(doc) else '?'} "
                                      "(fixed: delay; exponential: min(delay*2^k, max-delay); then no retry)"))
            return False
        if not agree(got, mod) and mism is None:
            mism = (c, got, mod)
    if mism:
        c, got, mod = mism
        chk.violation("broken-obligation", "corr:backoff-iter",
                      dict(input=c, impl=got, model=mod,
                           note="implementation and model disagree; the documented-formula oracle "
                                "accepted every explored policy"), no_input=True)
        return False
    return True


TIE_IMPORTS = ["Base.Str", "Model.Clocks", "Model.UnitTimers", "Proofs.DelayProps", "Model.DelayWait",
               "Proofs.DelayTie", "gen.GenPauseTable"]
TIE_PRELUDE = """
Definition enc_w (w : wstate) : list N :=
  match w with
  | Waiting r p => [0; r; if p then 1 else 0]
  | Done Expired => [1] | Done CutShort => [2] | WPanicked => [3]
  end.
Definition both (es : list devent) : list (list N) :=
  [enc_w (wabs_out (drun pause_table (dinit 2) es)); enc_w (wrun 2 (map wev es))].
"""


def delay_tie_counterexample():
    """the certificate dcert2 failed for the regenerated pause table: look for a shortest request
    sequence on which the retry-delay loop with the generated Stop / Continue arms and the
    DelayWait machine (about which C07_not_sooner etc. are proved) disagree"""
    import itertools
    ok, out = vlib.coq_make(["gen/GenPauseTable.vo", "Proofs/DelayTie.vo"])
    if not ok:
        return None
    evs = {"Stop": "DReq RStop", "Continue": "DReq RContinue", "1 ns passes": "DTick 1", "sleep fires": "DFire"}
    seqs = [list(x) for n in range(1, 5) for x in itertools.product(evs, repeat=n)]
    vals = vlib.coq_eval("c07tie", TIE_IMPORTS, [f"both {coq_list([evs[e] for e in sq])}" for sq in seqs],
                         TIE_PRELUDE)
    show = lambda w: {0: f"waiting, {w[1] if len(w) > 1 else '?'} ns left, {'stopped' if len(w) > 2 and w[2] else 'running'}",
                      1: "expired", 2: "cut short", 3: "panicked"}[w[0]]
    for sq, (gen_w, hand_w) in zip(seqs, vals):
        if gen_w != hand_w:
            return dict(request_sequence=sq, delay_ns=2, loop_with_generated_arms=show(gen_w), wait_machine=show(hand_w))
    return None


def run(tier, seed):
    chk = vlib.Check(PROP, tier, seed)
    # the Stop / Continue arms of handle_delay_between_attempts are regenerated from executor.rs
    # (C12's translator); Proofs/DelayTieCert.v re-establishes dcert2 for them
    import units_e2e
    tbl_ok, tbl_msg = units_e2e.regen_table()
    if not tbl_ok:
        chk.violation("broken-obligation", "pause-table-translator", dict(error=tbl_msg), no_input=True)
    gate = vlib.coq_gate(PROP)
    if not gate["ok"] and tbl_ok:
        cex = None
        try:
            cex = delay_tie_counterexample()
        except Exception as ex:
            vlib.log("C07: search for a delay-loop counterexample failed: " + str(ex)[-500:])
        if cex:
            chk.violation("counterexample", "cert:delay-loop",
                          dict(clause="on this request sequence the wait between attempts, with the Stop / Continue "
                                      "arms read from executor.rs, does not behave as the pausable wait about which "
                                      "'not sooner than the delay' is proved", input=cex,
                               delay_arms=[l for l in tbl_msg.splitlines() if "t_delay" in l], problems=gate["problems"]))
        else:
            vlib.gate_or_violation(chk, gate)
    else:
        vlib.gate_or_violation(chk, gate)
    # DESIGN 11.7 (second round): these decisions are regenerated from the Rust source and proved equal to the
    # model's for all inputs; a failure is reported when the check finishes unless a stage below finds a
    # concrete failing input
    gen_tie.gate(chk, ['after_attempt', 'attempt_loop', 'retry_policy', 'forced_retries'], gate)
    # glue code (DESIGN 11.7, fifth round): the retry policy of the selected profile -- get_profile + the accessor
    # EvaluatableProfile::retries, regenerated from the source: a profile-level value wins for every name but "default"
    gen_tie.gate(chk, ['get_profile', 'profile_retries'], gate, family="glue")
    binary, err = vlib.build_harness()
    if binary is None:
        chk.violation("broken-obligation", "harness-build", dict(error=err), no_input=True)
        return chk.finish(gate, "make -C coq Properties/C07.vo", [])
    r = vlib.rng_for(seed, PROP)
    thorough = tier == "thorough"

    # ---- corr:attempt-loop: the real runner on scripted processes (before the machine is loaded)
    loop_distinct = check_attempt_loop(chk, binary, vlib.rng_for(seed, PROP + ":rig"), thorough)

    # ---- corr:backoff-iter, jitter off: corpus, the grid (exhaustive over it), random policies
    counts = list(range(0, 13)) if thorough else [0, 1, 2, 3, 5, 8, 12]
    pols = [dict(p, tag="corpus") for p in corpus()] + list(grid_policies(counts))
    for _ in range(1500 if thorough else 150):
        pols.append(random_policy(r, 40 if thorough else 16))
    # long retry sequences: the doubling factor must stop growing once the cap is reached
    # (2^64 and 2^1024 are the places where an ever-growing factor breaks)
    for c, d, mx in ((70, 1000000, 4000000), (100, 1000000000, 4000000000), (130, 1000, 1000000),
                     (1100, 1000000, 8000000)):
        pols.append(dict(kind="exp", count=c, delay=d, jitter=False, max_delay=mx, tag="long:capped"))
    check_delay_lists(chk, pols, binary, "c07d")
    distinct = {json.dumps(pol_tuple(p)) for p in pols if p["count"] >= 2}
    chk.sample(dict(policy=pols[len(pols) // 2], documented_delays=doc_delays(pols[len(pols) // 2])))

    # ---- corr:backoff-base, jitter on: next_delay_and_jitter is unaffected by the flag
    jp = [dict(p, jitter=True) for p in pols if p["count"] >= 1 and p["delay"] > 0]
    r.shuffle(jp)
    jp = jp[:(400 if thorough else 80)]
    cases = [case_of(p, "base", p["count"]) for p in jp]
    impl = vlib.run_impl(binary, "backoff", cases)
    model = vlib.coq_eval("c07b", IMPORTS, [
        f"(delays {coq_policy(p)}, map jitter_range (delays {coq_policy(p)}))" for p in jp], PRELUDE)
    ranges = {}
    for idx, (p, c, i, m) in enumerate(zip(jp, cases, impl, model)):
        chk.count("base_delay_cases")
        got = [int(x[0]) for x in i] if isinstance(i, list) else None
        flags = [bool(x[1]) for x in i] if isinstance(i, list) else None
        doc = doc_delays(p)
        ok_doc = got is not None and len(got) == len(doc) and \
            all(abs(x - y) <= tol(y) for x, y in zip(got, doc)) and all(flags)
        ok_mod = got is not None and len(got) == len(m[0]) and \
            all(abs(x - y) <= tol(y) for x, y in zip(got, m[0]))
        if not ok_doc:
            chk.violation("counterexample", "oracle:base-delays",
                          dict(input=c, impl=i, documented=doc,
                               clause="with jitter on, the delay before jitter is still d / min(d*2^k, max) "
                                      "and the jitter flag is the policy's"))
            break
        if not ok_mod:
            chk.violation("broken-obligation", "corr:backoff-base", dict(input=c, impl=i, model=m[0]),
                          no_input=True)
            break
        ranges[idx] = m[1]

    # ---- jitter on: every draw of the real iterator lies in the model's interval
    reps = 60 if thorough else 25
    jit_pols = [(idx, p) for idx, p in enumerate(jp) if idx in ranges][:(120 if thorough else 40)]
    cases = []
    for idx, p in jit_pols:
        cases += [case_of(p, "delays", p["count"])] * reps
    impl = vlib.run_impl(binary, "backoff", cases)
    pos = 0
    jitter_bad = None
    for idx, p in jit_pols:
        lowest = {}          # position -> smallest applied/base ratio seen over the repetitions
        for _ in range(reps):
            i = impl[pos]
            pos += 1
            got = [int(x) for x in i["delays"]] if isinstance(i, dict) and "delays" in i and \
                None not in i["delays"] else None
            if got is None or len(got) != p["count"]:
                jitter_bad = jitter_bad or (p, i, "iterator with jitter on did not yield count delays")
                continue
            for k, (x, (lo, hi)) in enumerate(zip(got, ranges[idx])):
                chk.count("jitter_draws_iter")
                base = doc_delays(p)[k]
                if base >= EXACT_BELOW:
                    continue
                if not doc_jitter_ok(base, x):
                    jitter_bad = jitter_bad or (p, i, f"retry {k + 1}: applied delay {x} ns is not between "
                                                      f"half and all of {base} ns")
                elif not (lo <= x <= hi):
                    jitter_bad = jitter_bad or (p, i, f"retry {k + 1}: applied delay {x} outside the "
                                                      f"model's interval [{lo}, {hi}]")
                if base >= 1000:
                    lowest[k] = min(lowest.get(k, 1.0), x / base)
        # jitter is really applied by next(): the chance that `reps` (>= 25) uniform draws from
        # (d/2, d] all exceed 0.9 d is 0.2^25 < 1e-17
        for k, ratio in lowest.items():
            if ratio >= 0.9:
                jitter_bad = jitter_bad or (p, None, f"retry {k + 1}: jitter is on but {reps} applied delays were "
                                                     f"all above 0.9 of the configured value")
    if jitter_bad:
        p, i, why = jitter_bad
        chk.violation("counterexample", "oracle:jitter-iter", dict(input=case_of(p, "delays", p["count"]),
                                                                    impl=i, clause=why))

    # ---- apply_jitter directly: N draws per delay of the grid (+ random delays)
    ndraw = 400 if thorough else 200
    ds = list(GRID) + [4, 5, 6, 10, 11] + [max(1, int(10 ** r.uniform(0, 12.5))) for _ in range(40 if thorough else 10)]
    cases = [dict(op="jitter", delay=str(d), n=ndraw) for d in ds]
    impl = vlib.run_impl(binary, "backoff", cases)
    model = vlib.coq_eval("c07j", IMPORTS, [f"jitter_range {d}" for d in ds], PRELUDE)
    for d, c, i, (lo, hi) in zip(ds, cases, impl, model):
        xs = [int(x) for x in i]
        chk.count("jitter_draws_direct", len(xs))
        bad = [x for x in xs if not doc_jitter_ok(d, x)]
        if bad:
            chk.violation("counterexample", "oracle:jitter",
                          dict(input=c, offending=bad[:5],
                               clause=f"a jittered delay must lie between half and all of {d} ns"))
            break
        if [x for x in xs if not (lo <= x <= hi)]:
            chk.violation("broken-obligation", "corr:jitter-range",
                          dict(input=c, model_range=[lo, hi], impl_min=min(xs), impl_max=max(xs)), no_input=True)
            break
        # jitter is really applied and spans the interval: with >= 200 uniform draws the chance
        # that none falls in the lower (or upper) half of (d/2, d] is 2^-200
        if d >= 1000 and not (min(xs) < (3 * d) // 4 < max(xs)):
            chk.violation("counterexample", "oracle:jitter-spread",
                          dict(input=c, impl_min=min(xs), impl_max=max(xs),
                               clause=f"{len(xs)} jittered values of {d} ns do not spread over (d/2, d]"))
            break
    chk.sample(dict(jitter_of_ns=ds[7], draws=[int(x) for x in impl[7][:6]], model_interval=model[7]))

    # ---- corr:retry-policy-parse: deserialize_retry_policy vs valid_policy (+ documented schema)
    specs = parse_specs(r, thorough)
    cases = [dict(op="parse", toml=toml_of(s)) for s in specs]
    impl = vlib.run_impl(binary, "backoff", cases)
    cand = []
    for s in specs:
        # the policy the table denotes if it is structurally complete (for the model's validator)
        if s["form"] == "int":
            cand.append(dict(kind="fixed", count=max(s["n"], 0), delay=0, jitter=False, max_delay=None))
        elif s["backoff"] == "fixed":
            cand.append(dict(kind="fixed", count=s["count"] or 0, delay=s["delay"] or 0,
                             jitter=bool(s["jitter"]), max_delay=None))
        else:
            cand.append(dict(kind="exp", count=s["count"] or 0, delay=s["delay"] or 0,
                             jitter=bool(s["jitter"]), max_delay=s["max_delay"]))
    model = vlib.coq_eval("c07p", IMPORTS, [
        f"(b2n (valid_policy {coq_policy(p)}), enc_pol {coq_policy(p)})" for p in cand], PRELUDE)
    for s, c, i, p, (mv, mp) in zip(specs, cases, impl, cand, model):
        chk.count("parse_cases")
        doc = doc_parse(s)
        got = ("ok", impl_pol(i["ok"])) if isinstance(i, dict) and i.get("ok") is not None else ("err",)
        chk.count("parse_" + got[0])
        if got[0] != doc[0] or (got[0] == "ok" and got[1] != doc[1]):
            chk.violation("counterexample", "oracle:retry-policy-parse",
                          dict(input=c, impl=i, documented=doc,
                               clause="retries accepts a non-negative integer or a table; jitter needs a "
                                      "non-zero delay; exponential needs count > 0, delay > 0, max-delay >= delay > 0"))
            break
        structural = not (s["form"] == "int" and s["n"] < 0) and not (
            s["form"] == "table" and (s["count"] is None or
                                      (s["backoff"] == "fixed" and s["max_delay"] is not None) or
                                      (s["backoff"] == "exp" and s["delay"] is None)))
        if structural and ((got[0] == "ok") != bool(mv) or (got[0] == "ok" and pol_tuple(got[1]) != mp)):
            chk.violation("broken-obligation", "corr:retry-policy-parse",
                          dict(input=c, impl=i, model_valid=mv, model_policy=mp), no_input=True)
            break
    chk.sample(dict(parse=cases[10], impl=impl[10]))

    # ---- what --retries N / NEXTEST_RETRIES=N builds
    ns = [0, 1, 2, 3, 7, 12, 1000, 2 ** 32 + 1]
    impl = vlib.run_impl(binary, "backoff", [dict(op="cli", count=n) for n in ns])
    model = vlib.coq_eval("c07c", IMPORTS, [f"enc_pol (new_without_delay {n})" for n in ns], PRELUDE)
    for n, i, m in zip(ns, impl, model):
        chk.count("cli_cases")
        got = pol_tuple(impl_pol(i["ok"]))
        if got != [0, n, 0, 0, 0, 0]:
            chk.violation("counterexample", "oracle:cli-retries",
                          dict(input=n, impl=i, clause="--retries N is N retries without delay"))
            break
        if got != m:
            chk.violation("broken-obligation", "corr:cli-retries", dict(input=n, impl=i, model=m), no_input=True)
            break

    chk.assumptions = [
        "Duration::mul_f64 is exact for power-of-two factors below 2^51 ns; above, relative tolerance 2^-50",
        "the jitter factor 0.5 + u/2 is modelled as any rational in (1/2, 1]; the f64 corner where "
        "0.5 + 2^-54 rounds to exactly 0.5 (probability 2^-53 per draw) is not modelled",
        "std::time::Duration overflow (delay * 2^k beyond u64 seconds) is not modelled (N is unbounded)",
        "the attempt loop is tied by running the real TestRunner (public API, direct spawn, no-op signal "
        "handler) on scripted shell-script test binaries; cancellation during the delay, signals and the "
        "accuracy of real sleeping are left to the end-to-end rig",
        "the command-line / environment path (--retries N, NEXTEST_RETRIES=N, both) is run on the real "
        "cargo-nextest binary over the puppet workspace (lib/e2e_retries.py); 'no delay when forced' is "
        "judged on the puppet's own clock as start(k+1) - end(k) < (smallest delay the test's own policy "
        "could give, >= 1.5 s configured) - 0.5 s",
        "deserialize_retry_policy is exercised through toml::from_str on `retries = ...` (hook H3), "
        "not through the config crate's layered loader",
        "the Stop / Continue arms of the wait between attempts are read from executor.rs by "
        "harness/src/bin/pause_table.rs on every run (an arm it cannot translate is an error); the expiry, "
        "cancellation and query arms of the wait machine are hand-written",
    ]
    # end-to-end stage: generated multi-test runs of the real cargo-nextest over the scripted puppet
    # workspace, judged by this property's oracle (lib/e2e_general.py)
    try:
        import e2e_general
        e2e_general.stage(chk, PROP, tier, seed)
        # --retries / NEXTEST_RETRIES on the real binary x configured policies with delays
        # (lib/e2e_retries.py): attempt count = min(first pass, N+1), no delay when forced, the
        # configured delay (never sooner) when not
        import e2e_retries
        _, forced_runs, forced_tests = e2e_retries.stage(chk, PROP, tier, seed)
    except RuntimeError as ex:
        forced_runs = forced_tests = 0
        chk.violation("broken-obligation", "e2e-build", dict(error=str(ex)[-3000:]), no_input=True)
    # whole-life stage (Model/UnitLife.v): the retry delay counted in unstopped time when SIGTSTP / SIGCONT land
    # in it; cancellation reaching a unit in its delay, or consumed by an attempt that then fails with retries left
    try:
        import e2e, units_e2e as U
        ok_tbl, _msg = U.regen_table()
        if not ok_tbl:
            chk.violation("broken-obligation", "pause-table-translator", dict(error=_msg), no_input=True)
        else:
            gate = U.merge_gates(gate, U.life_gate(chk))
            U.life_stage(chk, e2e.Rig(), [U.life_cancel, lambda r: U.life_stop_in_delay(None)[:4]], "c07l",
                         vlib.rng_for(seed, PROP + ":life"), thorough)
    except RuntimeError as ex:
        chk.violation("broken-obligation", "e2e-build", dict(error=str(ex)[-3000:]), no_input=True)
    return chk.finish(
        gate, "make -C coq Properties/C07.vo && coqc gen/assump_C07.v (Print Assumptions)",
        ["Coq 8.16.1 kernel + vm_compute",
         "hand-written model Model/Backoff.v tied by corr:backoff-iter, corr:backoff-base, "
         "corr:jitter-range, corr:retry-policy-parse, corr:cli-retries (hook H3), corr:attempt-loop "
         "(real TestRunner over scripted processes, props/retry_rig.py)",
         "Python generators/oracles in props/C07.py", "harness/src/backoff.rs"],
        dict(evaluations=sum(v for k, v in chk.counts.items() if k.endswith("_cases")) +
             chk.counts.get("jitter_draws_direct", 0) + chk.counts.get("jitter_draws_iter", 0),
             distinct_nontrivial=len(distinct) + loop_distinct,
             rule="policy = (kind, count, delay, max-delay) over counts x a 12-value delay grid 1 ns..1 h x "
                  "max-delay in {none, below delay, = delay*2^j, +-1 ns around it, between two doublings, "
                  "above all} plus seeded random policies; each evaluated for count+2 calls of next(); "
                  "non-trivial = at least 2 retries; distinct by that tuple; plus jitter draws "
                  "(each checked against the model's interval), parse tables, CLI counts, and attempt-loop "
                  "runs of the real runner (test = effective policy x pass/fail pattern; non-trivial = at "
                  "least one retry allowed)",
             traces_validated_against_impl=chk.counts.get("delay_list_cases", 0) +
             chk.counts.get("base_delay_cases", 0) + chk.counts.get("attempt_loop_cases", 0) + forced_tests))


def replay(path, seed):
    d = json.load(open(path))
    print(json.dumps(d, indent=1)[:3000])
    inp = d.get("input")
    if isinstance(inp, dict) and "forced_scenario" in inp:
        import e2e_retries
        why = e2e_retries.replay(d)
        print("oracle now:", why or "accepts")
        return 1 if why else 0
    binary, err = vlib.build_harness()
    if isinstance(inp, dict) and inp.get("op") == "delays" and not inp.get("jitter"):
        p = dict(kind=inp["kind"], count=inp["count"], delay=int(inp["delay"]), jitter=False,
                 max_delay=None if inp["max_delay"] is None else int(inp["max_delay"]), tag="replay")
        chk = vlib.Check(PROP, "quick", seed)
        ok = check_delay_lists(chk, [p], binary, "c07r")
        print("oracle:", "accepts" if ok else "rejects")
        return 0 if ok else 1
    if isinstance(inp, dict) and "effective_policy" in inp and "pattern" in inp:
        eff = inp["effective_policy"]
        n = len(inp["pattern"])
        code = lambda ok: 0 if ok else 1
        spec = dict(policy=None if inp.get("forced") else eff, pattern=inp["pattern"], dflt=inp["default"],
                    default=dict(kind="exit", code=code(inp["default"])),
                    attempts={k + 1: dict(kind="exit", code=code(ok)) for k, ok in enumerate(inp["pattern"])})
        sc = dict(profile_retries=None, force=eff if inp.get("forced") else None, bins={"ba": {inp["test"]: spec}},
                  leak_timeout_ms=100, threads=1)
        case = rig.prepare("c07_replay", sc)
        res = vlib.run_impl(binary, "backoff", [case], shards=1)[0]
        inv = [k for k, _, _ in rig.read_log(case, "ba").get(inp["test"], [])]
        fin = (rig.per_test(res).get(("ba", inp["test"])) or {}).get("finished")
        rig.cleanup("c07_replay")
        want_n = doc_attempts(eff, inp["pattern"], inp["default"])
        delays = [int(a["delay_before_start"]) for a in fin["attempts"]] if fin else None
        base = [0] + doc_delays(eff)[:want_n - 1]
        ok = inv == list(range(1, want_n + 1)) and delays is not None and len(delays) == len(base) and all(
            ((b + 1) // 2 <= x <= b) if eff["jitter"] else x == b for x, b in zip(delays, base))
        print("impl now: invocations", inv, "delays", delays, "documented attempts", want_n, "delays", base)
        return 0 if ok else 1
    if isinstance(inp, dict) and inp.get("op") in ("jitter", "parse", "base", "delays"):
        print("impl now:", vlib.run_impl(binary, "backoff", [inp])[0])
    return 2   # not a kind of record this function knows how to replay (the driver then re-runs the check)
