"""C08 — concurrency limits and dispatch order: theorems (Properties/C08.v) + corr:future-queue
(the model vs the real future_queue_grouped stream, poll by poll) + nextest's own wiring through
its public API (RustBinaryId's Ord, TestPriority, ThreadsRequired::compute, the priority sort) +
an independent oracle replaying the implementation's own start/complete log."""
import json, os
import vlib, gen_tie
from vlib import coq_str, coq_list
from props import fq_common as fq

PROP = "C08"
TAGS = ("limit", "serial", "order", "protocol")   # oracle clauses that belong to C08
IMPORTS_W = ["Base.Str", "Model.Priority"]
PRELUDE_W = """
From Coq Require Import ZArith.
Definition enc_pt (t : ptest) : list N := N.of_nat (length (pt_bin t)) :: pt_bin t ++ pt_name t.
Definition weight_of (kind n tt : N) : N := if kind =? 0 then n else tt.
"""


def corpus():
    p = os.path.join(vlib.VERIF, "corpus", PROP + ".json")
    return json.load(open(p)) if os.path.exists(p) else []


# ---- independent reference for nextest's ordering (plain Python)

def py_components(s):
    if "::" not in s:
        return (s, 0, "", "")
    pkg, suffix = s.split("::", 1)
    if "/" not in suffix:
        return (pkg, 1, "", suffix)       # NameOnly{binary_name}
    kind, name = suffix.split("/", 1)
    return (pkg, 2, kind, name)


def py_cmp(a, b):
    return (a > b) - (a < b)


TOKENS = ["a", "b", "ab", "-", "_", "::", "/", ":", "é", "z"]


def gen_binid(r):
    return "".join(r.choice(TOKENS) for _ in range(r.randint(1, 5)))


def wiring(chk, binary, r, thorough):
    """nextest's own pieces, model vs implementation vs the Python reference"""
    # -- RustBinaryId Ord on all pairs
    for _ in range(12 if thorough else 3):
        ids = ["a", "a::b", "a::b/c", "a-b", "a::", "a::/", "b", "a:b"]
        while len(ids) < 16:
            s = gen_binid(r)
            if s not in ids:
                ids.append(s)
        impl = vlib.run_impl(binary, "fq", [dict(op="binid_cmp", ids=ids)])[0]
        model = vlib.coq_eval("c08b", IMPORTS_W, [
            coq_list([f"cmp_code (binary_id_cmp {coq_str(a)} {coq_str(b)})" for b in ids]) for a in ids], PRELUDE_W)
        for i, a in enumerate(ids):
            for j, b in enumerate(ids):
                chk.count("binary_id_pairs_cases")
                want = py_cmp(py_components(a), py_components(b))
                got, mod = impl[i][j], model[i][j] - 1
                if got != mod or got != want:
                    chk.violation("counterexample" if got != want else "broken-obligation", "corr:binary-id-ord",
                                  dict(input=[a, b], impl=got, model=mod, documented=want,
                                       clause="binary ids are ordered by (package, none < name < kind/name)"),
                                  no_input=(got == want))
                    return
    chk.sample(dict(binary_id_order=sorted(["a", "a::b", "a::b/c", "a-b", "b"], key=py_components)))
    # -- TestPriority range and order
    prios = [-128, -101, -100, -99, -1, 0, 1, 50, 100, 101, 127]
    impl = vlib.run_impl(binary, "fq", [dict(op="prio_cmp", prios=prios)])[0]
    model = vlib.coq_eval("c08p", IMPORTS_W, [
        coq_list([f"(if prio_valid ({a})%Z then 1 else 0)"] +
                 [f"cmp_code (prio_cmp ({a})%Z ({b})%Z)" for b in prios]) for a in prios], PRELUDE_W)
    for i, a in enumerate(prios):
        chk.count("priority_cases")
        if impl["valid"][i] != model[i][0] or impl["valid"][i] != int(-100 <= a <= 100):
            chk.violation("counterexample", "corr:priority-range", dict(input=a, impl=impl["valid"][i], model=model[i][0]))
            return
        for j, b in enumerate(prios):
            if impl["valid"][i] and impl["valid"][j]:
                want = py_cmp(-a, -b)      # higher priority sorts first
                if impl["cmp"][i][j] != model[i][j + 1] - 1 or impl["cmp"][i][j] != want:
                    chk.violation("counterexample" if impl["cmp"][i][j] != want else "broken-obligation",
                                  "corr:priority-ord", dict(input=[a, b], impl=impl["cmp"][i][j],
                                                            model=model[i][j + 1] - 1, documented=want,
                                                            clause="tests are dispatched in descending priority"),
                                  no_input=(impl["cmp"][i][j] == want))
                    return
    # -- ThreadsRequired::compute
    tcs = [dict(op="threads_required", kind=k, n=n, test_threads=tt)
           for k in ("count", "num-test-threads") for n in (1, 2, 7, 64) for tt in (1, 3, 8)]
    impl = vlib.run_impl(binary, "fq", tcs)
    model = vlib.coq_eval("c08t", IMPORTS_W, [
        f"weight_of {0 if c['kind'] == 'count' else 1} {c['n']} {c['test_threads']}" for c in tcs], PRELUDE_W)
    for c, i, m in zip(tcs, impl, model):
        chk.count("threads_required_cases")
        want = c["n"] if c["kind"] == "count" else c["test_threads"]
        if i != m or i != want:
            chk.violation("counterexample", "corr:threads-required", dict(input=c, impl=i, model=m, documented=want))
            return
    # -- the priority queue order
    cases = []
    for _ in range(150 if thorough else 30):
        bins = []
        while len(bins) < r.randint(1, 4):
            s = gen_binid(r)
            if s not in bins:
                bins.append(s)
        tests, seen = [], set()
        for _ in range(r.randint(1, 10)):
            b, nm = r.choice(bins), r.choice(["t", "a", "b", "mod::t", "z_é", "a::b", "T"])
            if (b, nm) in seen:
                continue
            seen.add((b, nm))
            tests.append([b, nm, r.choice([0, 0, 0, 1, -1, 5, 100, -100, 50])])
        cases.append(dict(op="prio_sort", tests=tests))
    impl = vlib.run_impl(binary, "fq", cases)
    model = vlib.coq_eval("c08q", IMPORTS_W, [
        "map enc_pt (priority_queue " + coq_list(
            [f"mkpt {coq_str(b)} {coq_str(nm)} ({p})%Z" for b, nm, p in c["tests"]]) + ")" for c in cases], PRELUDE_W)
    for c, i, m in zip(cases, impl, model):
        chk.count("priority_queue_cases")
        chk.count(f"priority_queue_distinct_priorities={len(set(t[2] for t in c['tests']))}")
        key = {(b, nm): k for k, (b, nm, _) in enumerate(c["tests"])}
        mod = [key[(vlib.decode_str(e[1:1 + e[0]]), vlib.decode_str(e[1 + e[0]:]))] for e in m]
        want = sorted(range(len(c["tests"])),
                      key=lambda k: (-c["tests"][k][2], py_components(c["tests"][k][0]), c["tests"][k][1]))
        if i != mod or i != want:
            chk.violation("counterexample" if i != want else "broken-obligation", "corr:priority-queue",
                          dict(input=c, impl=i, model=mod, documented=want,
                               clause="descending priority, then binary id, then test name"),
                          no_input=(i == want))
            return
    chk.sample(dict(priority_queue_case=cases[0], order=impl[0]))


def run(tier, seed):
    chk = vlib.Check(PROP, tier, seed)
    gate = vlib.coq_gate(PROP)
    vlib.gate_or_violation(chk, gate)
    # DESIGN 11.7 (second round): these decisions are regenerated from the Rust source and proved equal to the
    # model's for all inputs; a failure is reported when the check finishes unless a stage below finds a
    # concrete failing input
    gen_tie.gate(chk, ['cap_strat', 'build_test_threads', 'runner_settings', 'no_capture_serial', 'threads_required'], gate)
    # glue code (DESIGN 11.7, third round): the (weight, group) handed to future_queue_grouped for each selected test
    gen_tie.gate(chk, ['execute_item'], gate, family="glue")
    binary, err = vlib.build_harness()
    if binary is None:
        chk.violation("broken-obligation", "harness-build", dict(error=err), no_input=True)
        return chk.finish(gate, "make -C coq Properties/C08.vo", [])
    r = vlib.rng_for(seed, PROP)
    thorough = tier == "thorough"

    cases = fq.schedule_cases(r, thorough, corpus())
    rows = fq.run_schedules(chk, binary, cases, "c08s")
    distinct, validated = fq.judge(chk, binary, r, rows, TAGS, thorough, liveness=True)
    chk.sample(dict(schedule=fq.describe(rows[2]["case"]), impl_log=rows[2]["impl"].get("log"),
                    model_ops=[list(o) for o in rows[2]["ops"]]))
    chk.sample(dict(f7_witness=fq.describe(rows[0]["case"]), outcome=rows[0]["impl"].get("outcome")))

    # the Coq class predicate of F7 agrees with the one used above to recognise the known finding
    sample = [row for row in rows if "log" in row["impl"]][:(400 if thorough else 80)]
    cls = vlib.coq_eval("c08u", fq.IMPORTS + ["Proofs.FutureQueue"], [
        "(if uniform_b " + coq_list([
            f"mkitem {i} {it[0]} " + ("None" if it[1] is None else f"(Some {it[1]})")
            for i, it in enumerate(row["case"]["items"])]) + " then 1 else 0)" for row in sample])
    for row, u in zip(sample, cls):
        chk.count("class_predicate_cases")
        if bool(u) == fq.non_uniform_groups(row["case"]):
            chk.violation("broken-obligation", "corr:f7-class",
                          dict(input=fq.describe(row["case"]), model_uniform=u,
                               python_non_uniform=fq.non_uniform_groups(row["case"])), no_input=True)
            break

    wiring(chk, binary, r, thorough)
    validated += fq.run_runner_scenarios(chk, binary, r, thorough, TAGS, PROP, with_f7=True)

    chk.assumptions = [
        "what runs between 'future created' and 'process spawned/exited' is tokio's and the OS's: real "
        "process-alive intervals are observed only by the end-to-end rig (not part of this check)",
        "a poll of the real stream is explained as one of fill / pop+drain+fill / pop+drain (Model/FutureQueue.v header); "
        "the translation of the poll log into these operations is in props/fq_common.py derive_ops",
        "group keys are unique (nextest passes a map); usize overflow is not modelled",
        "threads-required >= 1 (0 is rejected by the config parser) for the serial and slot-bound clauses",
    ]
    # end-to-end stage: generated multi-test runs of the real cargo-nextest over the scripted puppet
    # workspace, judged by this property's oracle (lib/e2e_general.py)
    try:
        import e2e_general
        e2e_general.stage(chk, PROP, tier, seed)
    except RuntimeError as ex:
        chk.violation("broken-obligation", "e2e-build", dict(error=str(ex)[-3000:]), no_input=True)
    return chk.finish(
        gate, "make -C coq Properties/C08.vo && coqc gen/assump_C08.v (Print Assumptions)",
        ["Coq 8.16.1 kernel + vm_compute",
         "hand-written models Model/FutureQueue.v (future-queue 0.4.0) and Model/Priority.v tied by corr:future-queue, "
         "corr:binary-id-ord, corr:priority-ord, corr:threads-required, corr:priority-queue",
         "Python generators / log-to-operations translation / oracle in props/fq_common.py, props/C08.py",
         "harness/src/fq.rs (hand-rolled single-threaded poll loop, oneshot-completed futures)"],
        dict(evaluations=sum(v for k, v in chk.counts.items() if k.endswith("_cases")),
             distinct_nontrivial=len(distinct),
             rule="schedule = (limit, groups, items (weight, group), observed completion order); non-trivial = at "
                  "least 2 items; distinct by that tuple",
             traces_validated_against_impl=validated))


def replay(path, seed):
    d = json.load(open(path))
    print(json.dumps(d, indent=1)[:3000])
    binary, err = vlib.build_harness()
    inp = d.get("input")
    if isinstance(inp, dict) and "items" in inp:
        case = dict(op="run", gmax=inp["gmax"], groups=inp["groups"], items=inp["items"], script=inp["script"])
        chk = vlib.Check(PROP, "quick", seed)
        rows = fq.run_schedules(chk, binary, [case], "c08r")
        row = rows[0]
        fails = fq.oracle(case, row["impl"])
        print("impl:", json.dumps(row["impl"]))
        print("model:", row.get("model"))
        print("disagreement:", row["problem"] or row["diff"])
        print("oracle:", fails or "accepts")
        bad = [f for f in fails if f[0] in TAGS] or \
              [f for f in fails if f[0] == "liveness" and not (fq.non_uniform_groups(case) and fq.f7_shape(case, row["impl"]))]
        return 1 if (bad or row["problem"] or row["diff"]) else 0
    if isinstance(inp, dict) and "binaries" in inp:
        sc = {k: v for k, v in inp.items() if k != "tag"}
        res = vlib.run_impl(binary, "fq", [sc], timeout=600)[0]
        fails = fq.runner_oracle(inp, res)
        print("impl:", json.dumps(res)[:3000])
        print("oracle:", fails or "accepts")
        bad = [f for f in fails if f[0] in TAGS]
        if "liveness" in [f[0] for f in fails] and not fq.runner_f7_shape(inp, res):
            bad.append(("liveness", "stranded outside the known class"))
        return 1 if bad else 0
    name = d.get("name", "")
    if name == "corr:binary-id-ord" and isinstance(inp, list):
        got = vlib.run_impl(binary, "fq", [dict(op="binid_cmp", ids=inp)])[0][0][1]
        want = py_cmp(py_components(inp[0]), py_components(inp[1]))
        print("impl:", got, "documented:", want)
        return 1 if got != want else 0
    if name == "corr:priority-ord" and isinstance(inp, list):
        got = vlib.run_impl(binary, "fq", [dict(op="prio_cmp", prios=inp)])[0]["cmp"][0][1]
        want = py_cmp(-inp[0], -inp[1])
        print("impl:", got, "documented:", want)
        return 1 if got != want else 0
    if name == "corr:priority-queue" and isinstance(inp, dict) and "tests" in inp:
        got = vlib.run_impl(binary, "fq", [inp])[0]
        want = sorted(range(len(inp["tests"])),
                      key=lambda k: (-inp["tests"][k][2], py_components(inp["tests"][k][0]), inp["tests"][k][1]))
        print("impl:", got, "documented:", want)
        return 1 if got != want else 0
    return 2   # not a kind of record this function knows how to replay (the driver then re-runs the check)
